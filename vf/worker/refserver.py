"""Pristine reference server for C11: imports python_minifier, never calls it in this process, and answers each
request from a freshly forked child - so every reference result is "the first call in its process"."""
import json
import os
import sys
import warnings

warnings.simplefilter('ignore')
import python_minifier  # noqa: E402
from python_minifier.transforms.remove_annotations_options import RemoveAnnotationsOptions  # noqa: E402

SWITCHES = ['remove_pass', 'remove_literal_statements', 'combine_imports', 'hoist_literals', 'rename_locals',
            'rename_globals', 'remove_object_base', 'convert_posargs_to_args', 'preserve_shebang', 'remove_asserts',
            'remove_debug', 'remove_explicit_return_none', 'remove_builtin_exception_brackets', 'constant_folding']
ANN = ['remove_variable_annotations', 'remove_return_annotations', 'remove_argument_annotations',
       'remove_class_attribute_annotations']


def compute(req):
    src = bytes.fromhex(req['src_hex']) if 'src_hex' in req else req['src']
    api = req.get('api', 'minify')
    try:
        if api == 'minify':
            o = req['opts']
            kw = {k: bool(o[k]) for k in SWITCHES}
            ra = req.get('remove_annotations_bool')
            kw['remove_annotations'] = ra if ra is not None else RemoveAnnotationsOptions(**{k: bool(o[k]) for k in ANN})
            if req.get('pl') is not None:
                kw['preserve_locals'] = req['pl']
            if req.get('pg') is not None:
                kw['preserve_globals'] = req['pg']
            return {'out': python_minifier.minify(src, **kw)}
        if api == 'awslambda':
            return {'out': python_minifier.awslambda(src, entrypoint=req.get('entrypoint'))}
        if api == 'unparse':
            import ast
            return {'out': python_minifier.unparse(ast.parse(src))}
        if api == 'defaults':
            return {'out': python_minifier.minify(src)}
    except BaseException as e:
        return {'exc': type(e).__name__}
    return {'exc': 'bad-api'}


def main():
    out = sys.stdout
    sys.stdout = sys.stderr
    for line in sys.stdin:
        req = json.loads(line)
        r, w = os.pipe()
        pid = os.fork()
        if pid == 0:
            os.close(r)
            try:
                data = json.dumps(compute(req)).encode('utf-8')
            except BaseException as e:
                data = json.dumps({'exc': 'harness:' + type(e).__name__}).encode('utf-8')
            with os.fdopen(w, 'wb') as f:
                f.write(data)
            os._exit(0)
        os.close(w)
        with os.fdopen(r, 'rb') as f:
            data = f.read()
        os.waitpid(pid, 0)
        out.write(data.decode('utf-8') + '\n')
        out.flush()


if __name__ == '__main__':
    main()
