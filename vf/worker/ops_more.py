# -*- coding: utf-8 -*-
"""More worker operations (valid on Python 2.7 and 3.6+)."""
import sys

import python_minifier
from python_minifier.transforms.remove_annotations_options import RemoveAnnotationsOptions

PY2 = sys.version_info[0] == 2

SWITCHES = ['remove_pass', 'remove_literal_statements', 'combine_imports', 'hoist_literals', 'rename_locals',
            'rename_globals', 'remove_object_base', 'convert_posargs_to_args', 'preserve_shebang', 'remove_asserts',
            'remove_debug', 'remove_explicit_return_none', 'remove_builtin_exception_brackets', 'constant_folding']
ANN = ['remove_variable_annotations', 'remove_return_annotations', 'remove_argument_annotations',
       'remove_class_attribute_annotations']


def kwargs(opts):
    kw = {}
    for k in SWITCHES:
        kw[k] = bool(opts.get(k, False))
    kw['remove_annotations'] = RemoveAnnotationsOptions(**dict((k, bool(opts.get(k, False))) for k in ANN))
    return kw


def _src(req):
    s = req['src']
    if PY2:
        return s.encode('utf-8')
    return s


def op_fold(req):
    from vf.oracle import foldcheck
    opts = req['opts']
    nofold = dict(opts)
    nofold['constant_folding'] = False

    def minify(src, o):
        return python_minifier.minify(src, **kwargs(o))

    return foldcheck.check(_src(req), minify, opts, nofold)


OPS = {'fold': op_fold}


_warm = [False]


def op_audit(req):
    from vf.oracle import monitor
    if PY2:
        src = req['src'].encode('utf-8') if 'src' in req else req['src_hex'].decode('hex')
    else:
        src = req['src'] if 'src' in req else bytes.fromhex(req['src_hex'])
    if not _warm[0]:
        try:
            python_minifier.minify("import os\nx = 'q' + b'b'\ny = 1 + 2\nclass A(object):\n    def f(self): raise ValueError()\n")
            if sys.version_info >= (3, 6):
                python_minifier.minify("x = f'{a!r:>{b}} {1}'\n")
        except Exception:
            pass
        monitor.MONITOR.install()
        _warm[0] = True
    return monitor.audit_minify(src, kwargs(req['opts']))


OPS['audit'] = op_audit


def op_out(req):
    """Plain minify: returns the output text or the exception class name."""
    if PY2:
        src = req['src'].encode('utf-8') if 'src' in req else req['src_hex'].decode('hex')
    else:
        src = req['src'] if 'src' in req else bytes.fromhex(req['src_hex'])
    try:
        return {'out': python_minifier.minify(src, **kwargs(req['opts']))}
    except BaseException as e:
        return {'exc': type(e).__name__}


OPS['out'] = op_out


def op_scopes(req):
    """C03/C04/C06 oracle inside this interpreter (3.8+), plus the symtable cross-check of the resolver."""
    from vf.oracle import scopecheck, scopes
    src = req['src'] if 'src' in req else bytes.fromhex(req['src_hex']).decode('utf-8')

    def minify(s, o, pl, pg):
        kw = kwargs(o)
        if pl is not None:
            kw['preserve_locals'] = list(pl)
        if pg is not None:
            kw['preserve_globals'] = list(pg)
        return python_minifier.minify(s, **kw)

    rep = {'validated_scopes': 0}
    symtable_ok = sys.version_info < (3, 12)    # PEP 709: from 3.12 symtable no longer reports comprehension scopes
    try:
        if symtable_ok:
            agree, dis = scopes.symtable_check(src)
            rep['validated_scopes'] = agree
            if dis:
                rep['resolver_disagrees_with_symtable'] = repr(dis[:3])
        else:
            compile(src, '<case>', 'exec')
    except SyntaxError:
        return {'status': 'domain', 'why': 'syntax'}
    r = scopecheck.analyse(src, req['opts'], minify, req.get('pl'), req.get('pg'))
    if r.get('status') == 'ok' and symtable_ok:
        # the resolver is also cross-checked against CPython's symtable on the OUTPUT program
        try:
            agree2, dis2 = scopes.symtable_check(r['out'])
            rep['validated_scopes'] += agree2
            if dis2:
                rep['resolver_disagrees_with_symtable'] = 'on output: ' + repr(dis2[:3])
        except SyntaxError:
            pass
    out = dict((k, v) for k, v in r.items() if not k.startswith('_'))
    if r['status'] == 'ok' and req.get('interface'):
        bad = scopecheck.check_interface(r, req['opts'])
        if bad:
            out = {'status': 'violation', 'signature': list(bad[0]), 'detail': bad[1]}
    out.update(rep)
    out.pop('out', None)
    return out


OPS['scopes'] = op_scopes


def op_taint2(req):
    """C09 on this interpreter: with a trigger in the source, name-touching options must not change the output."""
    if PY2:
        src = req['src'].encode('utf-8')
    else:
        src = req['src']
    opts = dict(req['opts'])
    off = dict(opts)
    for k in ('rename_locals', 'rename_globals', 'hoist_literals'):
        off[k] = False
    try:
        a = python_minifier.minify(src, **kwargs(opts))
        b = python_minifier.minify(src, **kwargs(off))
    except BaseException as e:
        return {'domain': False, 'why': type(e).__name__}
    if a != b:
        return {'ok': False, 'signature': ['names-touched-despite-trigger', 'exec-statement'], 'observed': {'with': a[:800], 'without': b[:800]}}
    return {'ok': True}


OPS['taint2'] = op_taint2


def op_execdiff(req):
    """Run the source and its minified form in this interpreter and compare what they print (used for 2.7-only value/type checks)."""
    import io
    src = _src(req)
    try:
        out = python_minifier.minify(src, **kwargs(req['opts']))
    except BaseException as e:
        return {'domain': False, 'why': 'minify raises ' + type(e).__name__}

    def run(code):
        buf = io.BytesIO() if PY2 else io.StringIO()
        old = sys.stdout
        sys.stdout = buf
        try:
            try:
                exec(compile(code, '<execdiff>', 'exec'), {'__name__': '__main__'})
                end = 'normal'
            except BaseException as e:
                end = 'raises ' + type(e).__name__
        finally:
            sys.stdout = old
        v = buf.getvalue()
        if PY2 and isinstance(v, bytes):
            v = v.decode('utf-8', 'replace')
        return [v, end]

    a = run(src)
    b = run(out.encode('utf-8') if PY2 else out)
    if a != b:
        return {'ok': False, 'signature': ['behaviour-differs-in-this-interpreter'], 'observed': {'original': a, 'minified': b, 'out': out[:800]}}
    return {'ok': True, 'changed': out != (src.decode('utf-8') if PY2 else src), 'stdout': a[0][:200]}


OPS['execdiff'] = op_execdiff
