# -*- coding: utf-8 -*-
"""JSON-lines worker. ONE file, valid on Python 2.7 and 3.6 - 3.13.

Runs the system under test (python_minifier from $PYTHONPATH) and the version-specific half of
the oracles inside the interpreter it was started with. Requests and replies are single JSON
lines on stdin/stdout.
"""
from __future__ import print_function

import ast
import json
import re
import sys
import traceback
import warnings

warnings.simplefilter('ignore')
sys.setrecursionlimit(3000)

PY2 = sys.version_info[0] == 2

import python_minifier  # noqa: E402
from python_minifier.transforms.remove_annotations_options import RemoveAnnotationsOptions  # noqa: E402
from vf.oracle import strict_ast  # noqa: E402

SWITCHES = ['remove_pass', 'remove_literal_statements', 'combine_imports', 'hoist_literals', 'rename_locals',
            'rename_globals', 'remove_object_base', 'convert_posargs_to_args', 'preserve_shebang', 'remove_asserts',
            'remove_debug', 'remove_explicit_return_none', 'remove_builtin_exception_brackets', 'constant_folding']
ANN = ['remove_variable_annotations', 'remove_return_annotations', 'remove_argument_annotations',
       'remove_class_attribute_annotations']


def kwargs(opts):
    kw = {}
    for k in SWITCHES:
        kw[k] = bool(opts.get(k, False))
    kw['remove_annotations'] = RemoveAnnotationsOptions(**dict((k, bool(opts.get(k, False))) for k in ANN))
    return kw


def get_src(req):
    if 'src_hex' in req:
        h = req['src_hex']
        if PY2:
            return h.decode('hex')
        return bytes.fromhex(h)
    s = req['src']
    if PY2:
        # python 2 sources are byte strings
        return s.encode('utf-8')
    return s


def parse_error(src):
    try:
        ast.parse(src, 'python_minifier.minify source')
        return None
    except BaseException as e:
        return type(e).__name__


def compiles(src):
    try:
        compile(src, '<case>', 'exec', 0, True)
        return None
    except (SyntaxError, ValueError, OverflowError, RuntimeError, MemoryError, TypeError) as e:
        return '%s: %s' % (type(e).__name__, e)


def innermost_frame(tb):
    best = None
    while tb is not None:
        fn = tb.tb_frame.f_code.co_filename
        if 'python_minifier' in fn:
            best = '%s:%s' % (fn.split('python_minifier/')[-1], tb.tb_frame.f_code.co_name)
        tb = tb.tb_next
    return best


def norm_msg(msg):
    msg = re.sub(r"'[^']*'", "'_'", str(msg))
    msg = re.sub(r'\(<[^>]*>, line \d+\)', '', msg)
    msg = re.sub(r'line \d+', 'line N', msg)
    return msg.strip()[:120]


def is_recursion(e):
    return type(e).__name__ == 'RecursionError' or (isinstance(e, RuntimeError) and 'recursion' in str(e))


def op_c08(req):
    src = get_src(req)
    opts = req['opts']
    perr = parse_error(src)
    if perr is None:
        if compiles(src) is not None:
            return {'domain': False, 'why': 'not compilable'}
        try:
            out = python_minifier.minify(src, **kwargs(opts))
        except BaseException as e:
            if is_recursion(e):
                return {'domain': False, 'why': 'recursion'}
            return {'ok': False, 'signature': ['raises', type(e).__name__, innermost_frame(sys.exc_info()[2])],
                    'observed': str(e)[:300]}
        c = compiles(out)
        if c is not None:
            return {'ok': False, 'signature': ['output-not-compilable', norm_msg(c)], 'observed': {'output': out[:2000], 'error': c}}
        return {'ok': True, 'changed': out != src, 'parsed': True}
    if perr in ('RecursionError', 'MemoryError', 'RuntimeError'):
        return {'domain': False, 'why': perr}
    try:
        out = python_minifier.minify(src, **kwargs(opts))
    except BaseException as e:
        if type(e).__name__ != perr:
            return {'ok': False, 'signature': ['wrong-exception-for-unparseable', perr, type(e).__name__, innermost_frame(sys.exc_info()[2])],
                    'observed': str(e)[:300]}
        return {'ok': True, 'parsed': False, 'perr': perr}
    return {'ok': False, 'signature': ['no-exception-for-unparseable', perr], 'observed': repr(out)[:300]}


def op_roundtrip(req):
    """C02: parse_V(unparse(parse_V(S))) strictly identical to parse_V(S); minify(S, all off) likewise."""
    src = get_src(req)
    try:
        tree = ast.parse(src)
    except BaseException as e:
        return {'domain': False, 'why': type(e).__name__}
    nodes = strict_ast.count_nodes(tree)
    try:
        text = python_minifier.unparse(ast.parse(src))
    except BaseException as e:
        if is_recursion(e):
            return {'domain': False, 'why': 'recursion'}
        return {'ok': False, 'signature': ['unparse-raises', type(e).__name__, innermost_frame(sys.exc_info()[2])],
                'observed': str(e)[:300]}
    try:
        tree2 = ast.parse(text)
    except BaseException as e:
        return {'ok': False, 'signature': ['unparse-output-unparseable', type(e).__name__], 'observed': {'output': text[:2000]}}
    d = strict_ast.diff(tree, tree2)
    if d is not None:
        return {'ok': False, 'signature': ['unparse-tree-differs', re.sub(r'\[\d+\]', '[]', d.split(':')[0])[-60:]],
                'observed': {'diff': d, 'output': text[:2000]}}
    try:
        out = python_minifier.minify(src, **kwargs({}))
    except BaseException as e:
        if is_recursion(e):
            return {'domain': False, 'why': 'recursion'}
        return {'ok': False, 'signature': ['minify-alloff-raises', type(e).__name__, innermost_frame(sys.exc_info()[2])],
                'observed': str(e)[:300]}
    try:
        tree3 = ast.parse(out)
    except BaseException as e:
        return {'ok': False, 'signature': ['minify-alloff-output-unparseable', type(e).__name__], 'observed': {'output': out[:2000]}}
    d = strict_ast.diff(tree, tree3)
    if d is not None:
        return {'ok': False, 'signature': ['minify-alloff-tree-differs', re.sub(r'\[\d+\]', '[]', d.split(':')[0])[-60:]],
                'observed': {'diff': d, 'output': out[:2000]}}
    return {'ok': True, 'nodes': nodes, 'len_out': len(text)}


def op_ping(req):
    return {'ok': True, 'version': list(sys.version_info[:3])}


OPS = {'c08': op_c08, 'roundtrip': op_roundtrip, 'ping': op_ping}

try:
    from vf.worker import ops_more
    OPS.update(ops_more.OPS)
except ImportError:
    pass


def main():
    stdin = sys.stdin
    out = sys.stdout
    # keep anything the code under test prints away from the protocol channel
    sys.stdout = sys.stderr
    while True:
        line = stdin.readline()
        if not line:
            break
        try:
            req = json.loads(line)
            rep = OPS[req['op']](req)
        except BaseException as e:
            if isinstance(e, (KeyboardInterrupt, SystemExit)):
                raise
            rep = {'harness_error': traceback.format_exc()[-1500:]}
        try:
            s = json.dumps(rep)
        except Exception:
            s = json.dumps({'harness_error': 'unserialisable reply: %r' % (rep,)})
        out.write(s + '\n')
        out.flush()


if __name__ == '__main__':
    main()
