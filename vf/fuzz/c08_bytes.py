#!/venv/bin/python
"""Coverage-guided byte-level fuzz target (atheris / libFuzzer) for C08 and, in a second mode, for the execution monitor of C12.

The oracle lives inside the target:
  * ast.parse(S) ok and compile(S) ok  => minify(S, O) returns and its result compiles;
  * ast.parse(S) raises class E          => minify(S, O) raises class E;
  * VERIF_FUZZ_MODE=C12: nothing the minifier evaluates is anything but a closed literal expression (vf.oracle.monitor) - and only that.
The first two bytes select the option set and str/bytes input, the rest is the source. A failing input is written to
<out>/crash-* by libFuzzer and, as a replay case, to <out>/violation-*.json; the exit status is non-zero.

usage: c08_bytes.py <corpus_dir> <out_dir> -runs=N -seed=S [-max_len=N]
"""
import json
import os
import sys

ROOT = os.path.dirname(os.path.dirname(os.path.dirname(os.path.abspath(__file__))))
sys.path.insert(0, ROOT)
import vf  # noqa: E402,F401
sys.path.append(os.path.join(ROOT, '.deps'))
import atheris  # noqa: E402

with atheris.instrument_imports(include=['python_minifier']):
    import python_minifier  # noqa: F401

from vf import api  # noqa: E402
from vf.checks import c08, c12  # noqa: E402
from vf.oracle import monitor  # noqa: E402
from vf.runner import Findings, jsonable  # noqa: E402

OPTION_SETS = [api.DEFAULTS, api.ALL_OFF, api.ALL_ON, dict(api.DEFAULTS, rename_globals=True), dict(api.ALL_OFF, hoist_literals=True, rename_locals=True),
               dict(api.ALL_ON, rename_globals=False), dict(api.DEFAULTS, remove_literal_statements=True, remove_asserts=True, remove_debug=True),
               dict(api.ALL_OFF, constant_folding=True, combine_imports=True)]
OUT = [None]
MODE = os.environ.get('VERIF_FUZZ_MODE', 'C08')
FINDINGS = Findings()
STATS = {'execs': 0, 'parsed': 0, 'compiled': 0, 'known': 0}


def target(data):
    if len(data) < 2:
        return
    STATS['execs'] += 1
    opts = OPTION_SETS[data[0] % len(OPTION_SETS)]
    body = data[2:]
    if data[1] % 4 == 0:
        src = body
    else:
        try:
            src = body.decode('utf-8')
        except UnicodeDecodeError:
            return
    case = {'source': src, 'opts': opts}
    if MODE == 'C12':
        # only the execution monitor decides; whatever minify() returns or raises is C08's business
        if c08.parse_error(src) is None:
            STATS['parsed'] += 1
        try:
            r = c12.oracle(case)
        except BaseException as e:
            if type(e).__name__ in ('MinifyTimeout', 'RecursionError', 'MemoryError'):
                return
            raise
    else:
        r = c08.oracle(case)
        if c08.parse_error(src) is None:
            STATS['parsed'] += 1
    if r is None:
        return
    if 'MinifyTimeout' in repr(r[0]) or FINDINGS.match(MODE, case, r[0], r[1]) is not None:
        STATS['known'] += 1
        return
    path = os.path.join(OUT[0], 'violation-%s.json' % abs(hash(repr(r[0]))))
    with open(path, 'w') as f:
        json.dump({'property': MODE, 'signature': jsonable(r[0]), 'case': jsonable(case), 'observed': jsonable(r[1])}, f, indent=1)
    raise RuntimeError('VIOLATION %r' % (r[0],))


def main():
    corpus, out = sys.argv[1], sys.argv[2]
    OUT[0] = out
    os.makedirs(out, exist_ok=True)
    api.minify("import os\nx = f'{a!r:>{b}}' + 'q'\ny = 1 + 2\n")
    argv = [sys.argv[0], corpus, '-artifact_prefix=' + out + '/'] + sys.argv[3:]
    atheris.Setup(argv, target)
    atheris.Fuzz()


if __name__ == '__main__':
    main()
