"""Parent-side driver of the atheris target vf/fuzz/c08_bytes.py: one target, two modes.

mode C08: the C08 oracle runs inside the target (valid module => returns a compilable str; invalid => the same exception class).
mode C12: the execution monitor of C12 runs around minify(): anything evaluated that is not a closed literal expression, or an
import/open/process/socket event attributable to the input, is the violation. Each property's check reports only its own oracle."""
import glob
import json
import os
import re
import shutil
import subprocess
import sys
import tempfile

from .. import VERIF_ROOT


def run(prop, tier, seed, jobs_quick, jobs_thorough, runs_quick, runs_thorough):
    from ..gen import breakers
    target = os.path.join(VERIF_ROOT, 'vf', 'fuzz', 'c08_bytes.py')
    if not os.path.isdir(os.path.join(VERIF_ROOT, '.deps', 'atheris')):
        return {'fuzz': 'atheris not installed (setup_cmd could not install it): coverage-guided sub-step skipped'}
    scale = float(os.environ.get('VERIF_SCALE', '1'))
    jobs = jobs_quick if tier == 'quick' else jobs_thorough
    runs = int((runs_quick if tier == 'quick' else runs_thorough) * scale)
    work = tempfile.mkdtemp(prefix='vf_fuzz_')
    procs = []
    try:
        for j in range(jobs):
            corpus = os.path.join(work, 'corpus%d' % j)
            out = os.path.join(work, 'out%d' % j)
            os.makedirs(corpus)
            if j % 2 == 0:
                # half of the jobs start from small valid inputs, the other half from an empty corpus
                for i, src in enumerate(breakers.SEEDS):
                    with open(os.path.join(corpus, 'seed%d' % i), 'wb') as f:
                        f.write(bytes([i % 8, 1 + (i % 3)]) + src.encode('utf-8'))
            env = dict(os.environ)
            env['PYTHONHASHSEED'] = '0'
            env['VERIF_FUZZ_MODE'] = prop
            procs.append((j, out, subprocess.Popen([sys.executable, target, corpus, out, '-runs=%d' % runs, '-seed=%d' % (seed * 100 + j + 1), '-max_len=600',
                                                    '-print_final_stats=1', '-verbosity=0'], stdout=subprocess.PIPE, stderr=subprocess.STDOUT, env=env)))
        execs = 0
        violations = []
        crashed = 0
        for j, out, p in procs:
            try:
                o, _ = p.communicate(timeout=3600)
            except subprocess.TimeoutExpired:
                p.kill()
                o = b''
            m = re.search(rb'stat::number_of_executed_units:\s*(\d+)', o)
            if m:
                execs += int(m.group(1))
            for vf_ in glob.glob(os.path.join(out, 'violation-*.json')):
                d = json.load(open(vf_))
                dest = os.path.join(VERIF_ROOT, 'replays', prop)
                os.makedirs(dest, exist_ok=True)
                name = 'fuzz-' + os.path.basename(vf_)
                shutil.copy(vf_, os.path.join(dest, name))
                violations.append({'replay': 'replays/%s/%s' % (prop, name), 'signature': d['signature']})
            if p.returncode not in (0, None) and not glob.glob(os.path.join(out, 'violation-*.json')):
                crashed += 1
        res = {'fuzz': {'engine': 'atheris/libFuzzer', 'mode': prop, 'jobs': jobs, 'runs_per_job': runs, 'executions': execs, 'jobs_ending_abnormally_without_violation': crashed,
                        'corpus': 'even jobs: %d seed snippets, odd jobs: empty' % len(breakers.SEEDS)}}
        if violations:
            res['violations'] = violations
        return res
    finally:
        shutil.rmtree(work, ignore_errors=True)
