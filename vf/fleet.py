"""Multi-interpreter worker fleet (pyenv interpreters 2.7, 3.6 - 3.13)."""
import json
import os
import select
import subprocess

from hypothesis import strategies as st

from . import REPO_SRC, VERIF_ROOT

PYENV = '/root/.pyenv/versions'
VERSIONS = {'2.7': '2.7.18', '3.6': '3.6.15', '3.7': '3.7.16', '3.8': '3.8.18', '3.9': '3.9.18', '3.10': '3.10.13',
            '3.11': '3.11.7', '3.12': '3.12.1', '3.13': '3.13.0'}
PY3_OTHERS = ['3.6', '3.7', '3.8', '3.9', '3.10', '3.11', '3.13']

_workers = {}


def interpreter_path(v):
    p = os.path.join(PYENV, VERSIONS[v], 'bin', 'python')
    return p if os.path.exists(p) else None


class Worker(object):
    def __init__(self, version, hashseed='0', extra_env=None):
        self.version = version
        self.hashseed = hashseed
        self.extra_env = extra_env or {}
        self.proc = None
        self.restarts = 0
        self.timeouts = 0
        self.start()

    def start(self):
        path = interpreter_path(self.version)
        if path is None:
            raise OSError('interpreter %s missing' % self.version)
        env = dict(os.environ)
        env['PYTHONPATH'] = REPO_SRC + os.pathsep + VERIF_ROOT
        env['PYTHONHASHSEED'] = self.hashseed
        env['PYTHONDONTWRITEBYTECODE'] = '1'
        env['PYTHONIOENCODING'] = 'utf-8'
        env.pop('PYMINIFY_FORCE_BEST_EFFORT', None)
        env.update(self.extra_env)
        self.proc = subprocess.Popen([path, '-u', os.path.join(VERIF_ROOT, 'vf', 'worker', 'pyworker.py')],
                                     stdin=subprocess.PIPE, stdout=subprocess.PIPE, stderr=subprocess.DEVNULL, env=env)

    def call(self, req, timeout=30):
        if self.timeouts >= 3:
            # a time budget hit is "inconclusive", never a violation: after three timeouts this worker is given up for the run
            return {'timeout': True, 'given_up': True}
        if self.proc is None or self.proc.poll() is not None:
            self.restarts += 1
            self.start()
        data = (json.dumps(req) + '\n').encode('utf-8')
        try:
            self.proc.stdin.write(data)
            self.proc.stdin.flush()
        except (BrokenPipeError, OSError):
            self.kill()
            return {'worker_died': True}
        r, _, _ = select.select([self.proc.stdout], [], [], timeout)
        if not r:
            self.kill()
            self.timeouts += 1
            return {'timeout': True}
        line = self.proc.stdout.readline()
        if not line:
            self.kill()
            return {'worker_died': True}
        return json.loads(line.decode('utf-8'))

    def kill(self):
        if self.proc is not None:
            try:
                self.proc.kill()
                self.proc.wait(5)
            except Exception:
                pass
            self.proc = None


def get_worker(version, hashseed='0'):
    key = (version, hashseed, os.getpid())
    w = _workers.get(key)
    if w is None:
        w = Worker(version, hashseed)
        _workers[key] = w
    return w


def shutdown_all():
    for k, w in list(_workers.items()):
        if k[2] == os.getpid():
            w.kill()
            del _workers[k]


def src_fields(src):
    if isinstance(src, bytes):
        return {'src_hex': src.hex()}
    try:
        src.encode('utf-8')
        return {'src': src}
    except UnicodeEncodeError:
        return None


def replay_on(version, req):
    w = Worker(version)
    try:
        req = dict(req)
        src = req.pop('src', None)
        if src is not None:
            f = src_fields(src)
            if f is None:
                return None
            req.update(f)
        rep = w.call(req)
    finally:
        w.kill()
    if rep.get('ok') is False:
        return tuple(rep['signature']) + (version,), rep.get('observed')
    if 'harness_error' in rep:
        raise RuntimeError(rep['harness_error'])
    return None


def shard_versions(index, versions=PY3_OTHERS):
    """Interpreters are distributed round-robin over the shards."""
    return [versions[index % len(versions)]]


def level_of(version):
    return tuple(int(x) for x in version.split('.'))


def run_fleet_share(ctx, op, n, versions=PY3_OTHERS, profile=None, opts_strategy=None, extra_req=None):
    """Generate programs at the feature level of this shard's interpreter and run `op` there."""
    from . import api
    from .gen import progs
    from .runner import hyp_run, sha

    for v in shard_versions(ctx.index, versions):
        if interpreter_path(v) is None:
            ctx.note('interpreter_missing:' + v)
            continue
        w = get_worker(v)
        lvl = level_of(v)
        if opts_strategy is None:
            ostrat = api.option_sets() if op != 'roundtrip' else st.just({})
        else:
            ostrat = opts_strategy
        pstrat = st.one_of(progs.programs(profile='syntax', level=lvl), progs.programs(profile='shape', level=lvl)) \
            if profile is None else progs.programs(profile=profile, level=lvl)

        def prop(case, w=w, v=v):
            prog, opts = case
            f = src_fields(prog.source)
            if f is None:
                ctx.note('unencodable_source')
                return
            req = {'op': op, 'opts': opts}
            req.update(f)
            if extra_req:
                req.update(extra_req)
            rep = w.call(req)
            if rep.get('timeout') or rep.get('worker_died'):
                ctx.note('worker_timeout_or_death:' + v)
                return
            if 'harness_error' in rep:
                raise RuntimeError('worker %s: %s' % (v, rep['harness_error']))
            if rep.get('domain') is False:
                ctx.note('out_of_domain:%s:%s' % (v, rep.get('why')))
                ctx.evaluations += 1
                return
            key = sha(prog.source, api.opts_key(opts), v)
            nontrivial = rep.get('changed', True) if op == 'c08' else rep.get('nodes', 10) >= 5
            ctx.case(key, bool(nontrivial), classes=['interp:' + v],
                     sample={'interpreter': v, 'source': prog.source[:300], 'options_on': api.on_list(opts) if opts else []})
            if rep.get('ok') is False:
                c = {'source': prog.source, 'opts': opts, 'interp': v}
                ctx.fail(c, tuple(rep['signature']) + (v,), rep.get('observed'))

        hyp_run(ctx, 'fleet-' + v, st.tuples(pstrat, ostrat), prop, n)


def run_fixed(ctx, op, sources, versions=('2.7',) + tuple(PY3_OTHERS), opts=None):
    """Run a fixed list of (version-sensitive) sources through `op` inside this shard's interpreter(s)."""
    from .runner import sha
    vs = [v for i, v in enumerate(versions) if i % ctx.nshards == ctx.index % len(versions)] if ctx.nshards >= len(versions) else list(versions)
    vs = [versions[ctx.index % len(versions)]]
    for v in vs:
        if interpreter_path(v) is None:
            ctx.note('interpreter_missing:' + v)
            continue
        w = get_worker(v)
        for src in sources:
            req = {'op': op, 'opts': opts or {}, 'src': src}
            rep = w.call(req)
            if rep.get('timeout') or rep.get('worker_died'):
                ctx.note('worker_timeout_or_death:' + v)
                continue
            if 'harness_error' in rep:
                raise RuntimeError('worker %s: %s' % (v, rep['harness_error']))
            if rep.get('domain') is False:
                ctx.note('version_sensitive_out_of_domain:' + v)
                continue
            ctx.case(sha('fixed', src, v, repr(opts)), True, classes=['version-sensitive:' + v], sample={'interpreter': v, 'source': src})
            if rep.get('ok') is False:
                ctx.fail_direct({'source': src, 'opts': opts or {}, 'interp': v}, tuple(rep['signature']) + (v,), rep.get('observed'))
