"""Predicates for open entries of known_findings.json.

Each predicate gets (case, signature, observed, params) and must be narrow: a specific input shape
AND a specific failure signature, so that a different violation of the same property still fails.
"""
import ast
import re
import warnings


def _parse(src):
    with warnings.catch_warnings():
        warnings.simplefilter('ignore')
        return ast.parse(src)


def sig_startswith(signature, prefix):
    return list(signature[:len(prefix)]) == list(prefix)


_COOKIE = re.compile(br'^[ \t\f]*#.*?coding[:=][ \t]*([-\w.]+)')


def shebang_declares_non_utf8(case, signature, observed, params):
    """D9: the first line is a shebang that also carries a PEP 263 coding declaration for a non-UTF-8 codec,
    shebang preservation is on, and the failure is that the UTF-8 encoded output no longer denotes the same program."""
    if signature[0] not in ('utf8-bytes-tree-differs', 'utf8-output-unparseable', 'cli-bytes-tree-differs', 'cli-output-unparseable'):
        return False
    if not case.get('preserve'):
        return False
    data = case['bytes']
    first = re.split(br'\r\n|\r|\n', data, maxsplit=1)[0]
    if not first.startswith(b'#!'):
        return False
    m = _COOKIE.match(first)
    if not m:
        return False
    import codecs
    try:
        name = codecs.lookup(m.group(1).decode('ascii')).name
    except (LookupError, UnicodeDecodeError):
        return False
    return name not in ('utf-8', 'ascii')


def c17_listed(case, signature, observed, params):
    """D11: exactly the listed (option, base, corpus file) triples lengthen; anything else is a new violation."""
    if signature[0] != 'longer-with-option':
        return False
    return [signature[1], signature[2], signature[3]] in params['triples']
