"""Predicates for open entries of known_findings.json.

Each predicate gets (case, signature, observed, params) and must be narrow: a specific input shape
AND a specific failure signature, so that a different violation of the same property still fails.
"""
import ast
import re
import warnings


def _parse(src):
    with warnings.catch_warnings():
        warnings.simplefilter('ignore')
        return ast.parse(src)


def sig_startswith(signature, prefix):
    return list(signature[:len(prefix)]) == list(prefix)
