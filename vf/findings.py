"""Predicates for open entries of known_findings.json.

Each predicate gets (case, signature, observed, params) and must be narrow: a specific input shape
AND a specific failure signature, so that a different violation of the same property still fails.
"""
import ast
import re
import warnings


def _parse(src):
    with warnings.catch_warnings():
        warnings.simplefilter('ignore')
        return ast.parse(src)


def sig_startswith(signature, prefix):
    return list(signature[:len(prefix)]) == list(prefix)


_COOKIE = re.compile(br'^[ \t\f]*#.*?coding[:=][ \t]*([-\w.]+)')


def shebang_declares_non_utf8(case, signature, observed, params):
    """D9: the first line is a shebang that also carries a PEP 263 coding declaration for a non-UTF-8 codec,
    shebang preservation is on, and the failure is that the UTF-8 encoded output no longer denotes the same program."""
    if signature[0] not in ('utf8-bytes-tree-differs', 'utf8-output-unparseable', 'cli-bytes-tree-differs', 'cli-output-unparseable'):
        return False
    if not case.get('preserve'):
        return False
    data = case['bytes']
    first = re.split(br'\r\n|\r|\n', data, maxsplit=1)[0]
    if not first.startswith(b'#!'):
        return False
    m = _COOKIE.match(first)
    if not m:
        return False
    import codecs
    try:
        name = codecs.lookup(m.group(1).decode('ascii')).name
    except (LookupError, UnicodeDecodeError):
        return False
    return name not in ('utf-8', 'ascii')


def c17_listed(case, signature, observed, params):
    """D11: exactly the listed (option, base, corpus file) triples lengthen; anything else is a new violation."""
    if signature[0] != 'longer-with-option':
        return False
    return [signature[1], signature[2], signature[3]] in params['triples']


def nonlocal_binding_removed(case, signature, observed, params):
    """remove_asserts / remove_debug deleted the statement that held the only binding (a walrus in an assert, an assignment under
    `if __debug__:`) of a name that a nested function declares nonlocal: the output no longer compiles."""
    if signature[0] != 'output-not-compilable' or 'no binding for nonlocal' not in str(signature[1]):
        return False
    opts = case.get('opts') or {}
    if not (opts.get('remove_asserts') or opts.get('remove_debug')):
        return False
    src = case['source']
    if isinstance(src, bytes):
        src = src.decode('utf-8', 'replace')
    try:
        tree = _parse(src)
    except SyntaxError:
        return False
    if not any(isinstance(n, ast.Nonlocal) for n in ast.walk(tree)):
        return False
    from . import api
    o = dict(opts, remove_asserts=False, remove_debug=False)
    try:
        return api.compiles(api.minify(src, o)) is None
    except BaseException:
        return False
