"""Thin access layer to the system under test plus option-set generation."""
import ast
import os
import signal
import threading
import warnings

from hypothesis import strategies as st

import python_minifier
from python_minifier.transforms.remove_annotations_options import RemoveAnnotationsOptions

SWITCHES = ['remove_pass', 'remove_literal_statements', 'combine_imports', 'hoist_literals', 'rename_locals',
            'rename_globals', 'remove_object_base', 'convert_posargs_to_args', 'preserve_shebang', 'remove_asserts',
            'remove_debug', 'remove_explicit_return_none', 'remove_builtin_exception_brackets', 'constant_folding']
ANN = ['remove_variable_annotations', 'remove_return_annotations', 'remove_argument_annotations',
       'remove_class_attribute_annotations']
DEFAULTS = {'remove_pass': True, 'remove_literal_statements': False, 'combine_imports': True, 'hoist_literals': True,
            'rename_locals': True, 'rename_globals': False, 'remove_object_base': True,
            'convert_posargs_to_args': True, 'preserve_shebang': True, 'remove_asserts': False, 'remove_debug': False,
            'remove_explicit_return_none': True, 'remove_builtin_exception_brackets': True, 'constant_folding': True,
            'remove_variable_annotations': True, 'remove_return_annotations': True,
            'remove_argument_annotations': True, 'remove_class_attribute_annotations': False}
ALL = SWITCHES + ANN
ALL_OFF = {k: False for k in ALL}
ALL_ON = {k: True for k in ALL}
# the options documented as safe: the defaults and any subset of them
SAFE = [k for k in ALL if DEFAULTS[k]]
NAME_TOUCHING = ['rename_locals', 'rename_globals', 'hoist_literals']


def kwargs(opts, **extra):
    """Flat option dict -> keyword arguments for python_minifier.minify."""
    kw = {k: bool(opts.get(k, DEFAULTS[k])) for k in SWITCHES}
    kw['remove_annotations'] = RemoveAnnotationsOptions(**{k: bool(opts.get(k, DEFAULTS[k])) for k in ANN})
    kw.update(extra)
    return kw


class MinifyTimeout(BaseException):
    """python_minifier did not return within the CPU/wall bound (a harness guard, never reported as a property violation)."""


MINIFY_SECONDS = float(os.environ.get('VERIF_MINIFY_SECONDS', '60'))
_timeouts = [0]
TIMEOUT_TRACES = []


class time_limit(object):
    """Wall-clock guard around a call into the system under test (main thread only). After three expiries in one process every
    later call is inconclusive at once: a change that makes the minifier loop forever must not turn a check into a silent hang,
    and a time limit is never a verdict."""

    def __init__(self, seconds=None):
        self.seconds = seconds or MINIFY_SECONDS
        self.armed = False

    def _expired(self, signum, frame):
        _timeouts[0] += 1
        # where it was: innermost frames, for the evidence notes (a hang must be explainable afterwards)
        try:
            import traceback
            TIMEOUT_TRACES.append(''.join(traceback.format_stack(frame, limit=6))[-1500:])
        except Exception:
            pass
        raise MinifyTimeout('no result after %.0f s' % self.seconds)

    def __enter__(self):
        if _timeouts[0] >= 3:
            # three expiries in this process: stop waiting a minute per case. Every later call is inconclusive at once (MinifyTimeout is
            # never a verdict); the shard reports the give-up in its notes.
            raise MinifyTimeout('gave up after three expiries of %.0f s in this process' % self.seconds)
        if threading.current_thread() is threading.main_thread():
            try:
                self.old = signal.signal(signal.SIGALRM, self._expired)
                self.old_timer = signal.setitimer(signal.ITIMER_REAL, self.seconds)
                self.armed = True
            except ValueError:
                pass
        return self

    def __exit__(self, *exc):
        if self.armed:
            signal.setitimer(signal.ITIMER_REAL, 0)
            signal.signal(signal.SIGALRM, self.old)
        return False


def minify(src, opts=None, **extra):
    with warnings.catch_warnings():
        warnings.simplefilter('ignore')
        with time_limit():
            return python_minifier.minify(src, **kwargs(opts or DEFAULTS, **extra))


def parse(src):
    with warnings.catch_warnings():
        warnings.simplefilter('ignore')
        return ast.parse(src)


def compiles(src):
    try:
        with warnings.catch_warnings():
            warnings.simplefilter('ignore')
            compile(src, '<case>', 'exec', dont_inherit=True)
        return None
    except (SyntaxError, ValueError, OverflowError, RecursionError, MemoryError) as e:
        return '%s: %s' % (type(e).__name__, e)


def innermost_frame(exc, package='python_minifier'):
    """(file:function) of the innermost traceback frame inside the package, for bucketing."""
    import traceback
    best = None
    for fr, _ln in traceback.walk_tb(exc.__traceback__):
        fn = fr.f_code.co_filename
        if package in fn:
            best = '%s:%s' % (fn.split(package + '/')[-1], fr.f_code.co_name)
    return best


@st.composite
def option_sets(draw, keys=ALL, base=None):
    """Option sets with corners over-weighted: all off, all on, default, one on, one off, uniform subsets."""
    base = dict(base or ALL_OFF)
    r = draw(st.integers(0, 9))
    o = dict(base)
    if r == 0:
        for k in keys:
            o[k] = False
    elif r == 1:
        for k in keys:
            o[k] = True
    elif r <= 3:
        for k in keys:
            o[k] = DEFAULTS[k]
    elif r == 4:
        for k in keys:
            o[k] = False
        o[draw(st.sampled_from(keys))] = True
    elif r == 5:
        for k in keys:
            o[k] = DEFAULTS[k]
        k = draw(st.sampled_from(keys))
        o[k] = not o[k]
    else:
        bits = draw(st.integers(0, 2 ** len(keys) - 1))
        for i, k in enumerate(keys):
            o[k] = bool(bits >> i & 1)
    return o


def opts_key(opts):
    return ''.join('1' if opts.get(k, DEFAULTS[k]) else '0' for k in ALL)


def on_list(opts):
    return [k for k in ALL if opts.get(k, DEFAULTS[k])]
