"""Pinned corpus of real modules (files live in the image; the manifest pins path + sha256)."""
import hashlib
import json
import os

from . import VERIF_ROOT

_cache = None


def manifest():
    global _cache
    if _cache is None:
        with open(os.path.join(VERIF_ROOT, 'corpus', 'manifest.json')) as f:
            _cache = json.load(f)['files']
    return _cache


def load(entry):
    """Return the file's bytes, or None when it is missing or differs from the pinned hash."""
    try:
        with open(entry['path'], 'rb') as f:
            data = f.read()
    except OSError:
        return None
    if entry['sha256'] is not None and hashlib.sha256(data).hexdigest() != entry['sha256']:
        return None
    return data


def files(groups=None, max_size=None):
    out = []
    for e in manifest():
        if groups is not None and e['group'] not in groups:
            continue
        if max_size is not None and e['size'] > max_size:
            continue
        out.append(e)
    return out


def shard_slice(items, index, nshards):
    return [x for i, x in enumerate(items) if i % nshards == index]
