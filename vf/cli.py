"""In-process and subprocess drivers for the pyminify command line, plus the documented flag model.

The flag -> keyword table is written from docs/source/transforms/*.rst and `pyminify --help`
(not from __main__.py): one flag per option, the flag's spelling says which way it flips the default.
"""
import io
import os
import subprocess
import sys

from hypothesis import strategies as st

from . import REPO_SRC, api

# flag, option it controls, value the flag sets
FLAGS = [
    ('--no-combine-imports', 'combine_imports', False),
    ('--no-remove-pass', 'remove_pass', False),
    ('--remove-literal-statements', 'remove_literal_statements', True),
    ('--no-hoist-literals', 'hoist_literals', False),
    ('--no-rename-locals', 'rename_locals', False),
    ('--rename-globals', 'rename_globals', True),
    ('--no-remove-object-base', 'remove_object_base', False),
    ('--no-convert-posargs-to-args', 'convert_posargs_to_args', False),
    ('--no-preserve-shebang', 'preserve_shebang', False),
    ('--remove-asserts', 'remove_asserts', True),
    ('--remove-debug', 'remove_debug', True),
    ('--no-remove-explicit-return-none', 'remove_explicit_return_none', False),
    ('--no-remove-builtin-exception-brackets', 'remove_builtin_exception_brackets', False),
    ('--no-constant-folding', 'constant_folding', False),
    ('--no-remove-annotations', '*annotations', False),
    ('--no-remove-variable-annotations', 'remove_variable_annotations', False),
    ('--no-remove-return-annotations', 'remove_return_annotations', False),
    ('--no-remove-argument-annotations', 'remove_argument_annotations', False),
    ('--remove-class-attribute-annotations', 'remove_class_attribute_annotations', True),
]
FLAG_NAMES = [f[0] for f in FLAGS]
assert len(FLAGS) == 19


def documented_options(flags):
    """Flag subset -> flat option dict the documentation says it means, or None when the combination is invalid."""
    flags = set(flags)
    if '--remove-class-attribute-annotations' in flags and '--no-remove-annotations' in flags:
        return None
    o = dict(api.DEFAULTS)
    for flag, opt, val in FLAGS:
        if flag in flags and opt != '*annotations':
            o[opt] = val
    if '--no-remove-annotations' in flags:
        for k in api.ANN:
            o[k] = False
    return o


def split_preserve(values):
    """Documented splitting: every occurrence of the flag, comma separated, whitespace stripped, empties dropped."""
    out = []
    for v in values:
        for name in v.split(','):
            name = name.strip()
            if name:
                out.append(name)
    return out


def expected_bytes(source, opts, preserve_locals=(), preserve_globals=(), force=False):
    """What the CLI must write for `source` (bytes). Raises whatever the API raises."""
    m = api.minify(source, opts, preserve_locals=list(preserve_locals), preserve_globals=list(preserve_globals)).encode('utf-8')
    if force:
        return m
    return m if len(m) <= len(source) else source


class _Stdin(object):
    def __init__(self, data):
        self.buffer = io.BytesIO(data)

    def read(self):
        return self.buffer.read().decode('utf-8')


def run_inprocess(argv, stdin=b'', force_env=None):
    """Run python_minifier.__main__.main() in this process. Returns (status, stdout bytes, stderr text).

    status is the integer exit status; an uncaught exception is reported as status 1 with
    'EXC:<class>' appended to stderr (that is what the interpreter would do)."""
    import python_minifier.__main__ as m
    old = (sys.argv, sys.stdin, sys.stdout, sys.stderr)
    old_env = os.environ.get('PYMINIFY_FORCE_BEST_EFFORT')
    if force_env is None:
        os.environ.pop('PYMINIFY_FORCE_BEST_EFFORT', None)
    else:
        os.environ['PYMINIFY_FORCE_BEST_EFFORT'] = force_env
    raw = io.BytesIO()
    out = io.TextIOWrapper(raw, encoding='utf-8', write_through=True)
    err = io.StringIO()
    status = 0
    try:
        sys.argv = ['pyminify'] + list(argv)
        sys.stdin = _Stdin(stdin)
        sys.stdout = out
        sys.stderr = err
        try:
            with api.time_limit():
                m.main()
        except SystemExit as e:
            status = e.code if isinstance(e.code, int) else (0 if e.code is None else 1)
        except BaseException as e:
            status = 1
            err.write('EXC:%s: %s' % (type(e).__name__, str(e)[:200]))
        out.flush()
    finally:
        sys.argv, sys.stdin, sys.stdout, sys.stderr = old
        if old_env is None:
            os.environ.pop('PYMINIFY_FORCE_BEST_EFFORT', None)
        else:
            os.environ['PYMINIFY_FORCE_BEST_EFFORT'] = old_env
    return status, raw.getvalue(), err.getvalue()


def run_subprocess(argv, stdin=b'', force_env=None, cwd=None, how='module'):
    env = dict(os.environ)
    env['PYTHONPATH'] = REPO_SRC
    env.pop('PYMINIFY_FORCE_BEST_EFFORT', None)
    if force_env is not None:
        env['PYMINIFY_FORCE_BEST_EFFORT'] = force_env
    if how == 'module':
        cmd = [sys.executable, '-m', 'python_minifier'] + list(argv)
    else:
        cmd = [sys.executable, '-c', 'import sys; from python_minifier.__main__ import main; sys.argv[0]="pyminify"; main()'] + list(argv)
    p = subprocess.run(cmd, input=stdin, stdout=subprocess.PIPE, stderr=subprocess.PIPE, env=env, cwd=cwd, timeout=120)
    return p.returncode, p.stdout, p.stderr.decode('utf-8', 'replace')


@st.composite
def flag_subsets(draw):
    r = draw(st.integers(0, 9))
    if r == 0:
        return []
    if r <= 2:
        return [draw(st.sampled_from(FLAG_NAMES))]
    if r == 3:
        x = draw(st.sampled_from(FLAG_NAMES))
        return [f for f in FLAG_NAMES if f != x and f != '--no-remove-annotations']
    bits = draw(st.integers(0, 2 ** 19 - 1))
    if r <= 6:
        bits &= draw(st.integers(0, 2 ** 19 - 1))
    fl = [f for i, f in enumerate(FLAG_NAMES) if bits >> i & 1]
    if r != 9 and '--no-remove-annotations' in fl and '--remove-class-attribute-annotations' in fl:
        fl.remove('--no-remove-annotations')
    return fl


def preserve_spellings():
    """(argv fragment values) for a repeated comma-separated flag."""
    name = st.sampled_from(['alpha_value', 'counter_total', 'helper_func', 'x', 'A', 'len', 'absent_name', 'main', 'handler'])
    piece = st.one_of(name, name.map(lambda n: ' ' + n + ' '), st.just(''), st.just(' '), name.map(lambda n: n + ' '))
    value = st.lists(piece, min_size=1, max_size=4).map(','.join)
    return st.lists(value, min_size=0, max_size=3)
