"""C07 oracle: independent evaluation of literal-only arithmetic before/after folding.

stdlib only; valid on Python 2.7 and 3.6+ (runs on the host and inside the worker).
"""
import ast
import sys
import warnings

from vf.oracle import strict_ast

PY2 = sys.version_info[0] == 2

if sys.version_info >= (3, 8):
    def is_const(n):
        return isinstance(n, ast.Constant) and n.value is not Ellipsis
else:
    _CONST = tuple(getattr(ast, x) for x in ('Num', 'Str', 'Bytes', 'NameConstant') if hasattr(ast, x))

    def is_const(n):
        if isinstance(n, _CONST):
            return True
        if isinstance(n, ast.Constant if hasattr(ast, 'Constant') else ()):
            return n.value is not Ellipsis
        return PY2 and isinstance(n, ast.Name) and n.id in ('True', 'False', 'None')


def literal_arith(n):
    """Subtree made only of BinOp / UnaryOp / constants."""
    if is_const(n):
        return True
    if isinstance(n, ast.BinOp):
        return literal_arith(n.left) and literal_arith(n.right)
    if isinstance(n, ast.UnaryOp):
        return literal_arith(n.operand)
    return False


def has_binop(n):
    for x in ast.walk(n):
        if isinstance(x, ast.BinOp):
            return True
    return False


def maximal_sites(tree):
    """Paths (list of (field, index|None)) of maximal literal-only arithmetic expressions containing a BinOp."""
    out = []

    def rec(node, path):
        if isinstance(node, ast.expr) and literal_arith(node) and has_binop(node):
            out.append(path)
            return
        for f in node._fields:
            v = getattr(node, f, None)
            if isinstance(v, list):
                for i, x in enumerate(v):
                    if isinstance(x, ast.AST):
                        rec(x, path + [(f, i)])
            elif isinstance(v, ast.AST):
                rec(v, path + [(f, None)])
    rec(tree, [])
    return out


def get_path(tree, path):
    n = tree
    for f, i in path:
        n = getattr(n, f)
        if i is not None:
            n = n[i]
    return n


def binop_subpaths(node, path):
    """(path, node) of every BinOp inside a literal arithmetic tree."""
    out = []
    if isinstance(node, ast.BinOp):
        out.append((path, node))
        out += binop_subpaths(node.left, path + [('left', None)])
        out += binop_subpaths(node.right, path + [('right', None)])
    elif isinstance(node, ast.UnaryOp):
        out += binop_subpaths(node.operand, path + [('operand', None)])
    return out


def evaluate(node):
    """('value', type name, repr) or ('raises', exception class name)."""
    expr = ast.Expression(body=node)
    ast.fix_missing_locations(expr)
    try:
        with warnings.catch_warnings():
            warnings.simplefilter('ignore')
            code = compile(expr, '<fold>', 'eval')
            v = eval(code, {'__builtins__': {}}, {})
    except BaseException as e:
        return ('raises', type(e).__name__)
    try:
        r = repr(v)
    except ValueError:
        # int/str conversion limit: identify the value by its hexadecimal form instead
        r = hex(v)
    return ('value', type(v).__name__, r)


def is_nan_outcome(o):
    return o[0] == 'value' and 'nan' in o[2]


def check(src, minify, opts_fold, opts_nofold):
    """Returns a dict: {'ok': True, 'sites': n, 'folded': k, 'left_alone': m} or {'ok': False, 'signature': [...], 'observed': ...}
    or {'domain': False}."""
    try:
        tree = ast.parse(src)
    except BaseException as e:
        return {'domain': False, 'why': type(e).__name__}
    try:
        out = minify(src, opts_fold)
        base = minify(src, opts_nofold)
    except BaseException as e:
        return {'ok': False, 'signature': ['minify-raises', type(e).__name__], 'observed': str(e)[:300]}
    try:
        rtree = ast.parse(out)
    except BaseException as e:
        return {'ok': False, 'signature': ['output-unparseable', type(e).__name__], 'observed': out[:500]}
    if len(out) > len(base):
        return {'ok': False, 'signature': ['folding-lengthens-output'], 'observed': {'with': len(out), 'without': len(base), 'out': out[:500]}}
    sites = maximal_sites(tree)
    folded = 0
    left_alone = 0
    samples = []
    for path in sites:
        a = get_path(tree, path)
        try:
            b = get_path(rtree, path)
        except (AttributeError, IndexError, TypeError):
            return {'ok': False, 'signature': ['structure-changed-around-expression'], 'observed': {'out': out[:500]}}
        oa = evaluate(a)
        ob = evaluate(b)
        changed = strict_ast.diff(a, b) is not None
        if oa != ob:
            return {'ok': False, 'signature': ['value-type-or-error-changed', oa[0] + ':' + oa[1], ob[0] + ':' + ob[1]],
                    'observed': {'original': oa, 'folded': ob, 'out': out[:500]}}
        if changed:
            folded += 1
        # "left as it is": a BinOp whose own evaluation raises or is NaN must still be that BinOp
        for sp, sn in binop_subpaths(a, []):
            o = evaluate(sn)
            if o[0] == 'raises' or is_nan_outcome(o):
                try:
                    rn = get_path(b, sp)
                except (AttributeError, IndexError, TypeError):
                    rn = None
                if not isinstance(rn, ast.BinOp) or type(rn.op) is not type(sn.op):
                    return {'ok': False, 'signature': ['raising-or-nan-expression-not-left-alone', o[1] if o[0] == 'raises' else 'nan'],
                            'observed': {'out': out[:500]}}
                left_alone += 1
        if len(samples) < 2:
            samples.append([oa, changed])
    return {'ok': True, 'sites': len(sites), 'folded': folded, 'left_alone': left_alone, 'samples': samples, 'out': out[:300]}
