"""The shared pipeline behind C03 / C04 / C06 / C10: minify, align with the un-renamed baseline, validate and inline
aliases, check that the identifier mapping is an isomorphism of bindings, and collect the facts the individual
properties assert on. stdlib only (3.8+): runs on the 3.12 host and inside the 3.11 worker.
"""
import ast
import re
import warnings

from vf.oracle import align, scopes, strict_ast

NAME_TOUCHING = ('rename_locals', 'rename_globals', 'hoist_literals')
SWITCHES = ['remove_pass', 'remove_literal_statements', 'combine_imports', 'hoist_literals', 'rename_locals',
            'rename_globals', 'remove_object_base', 'convert_posargs_to_args', 'preserve_shebang', 'remove_asserts',
            'remove_debug', 'remove_explicit_return_none', 'remove_builtin_exception_brackets', 'constant_folding',
            'remove_variable_annotations', 'remove_return_annotations', 'remove_argument_annotations',
            'remove_class_attribute_annotations']
FUNC = (ast.FunctionDef, ast.AsyncFunctionDef)


def _parse(src):
    with warnings.catch_warnings():
        warnings.simplefilter('ignore')
        return ast.parse(src)


def _compiles(src):
    try:
        with warnings.catch_warnings():
            warnings.simplefilter('ignore')
            compile(src, '<case>', 'exec', dont_inherit=True)
        return None
    except (SyntaxError, ValueError, OverflowError, RecursionError, MemoryError) as e:
        return '%s: %s' % (type(e).__name__, e)


def norm_msg(msg):
    msg = re.sub(r"'[^']*'", "'_'", str(msg))
    msg = re.sub(r'\(<[^>]*>, line \d+\)', '', msg)
    return msg.strip()[:100]


class Facts(object):
    pass


def fail(sig, detail=None, **extra):
    d = {'status': 'violation', 'signature': list(sig), 'detail': detail}
    d.update(extra)
    return d


def merge_posargs(tree):
    for n in ast.walk(tree):
        if isinstance(n, ast.arguments) and getattr(n, 'posonlyargs', None) and n.kwarg is None:
            # with **kwargs the marker is significant (a keyword may share its name with a positional-only parameter) and is kept
            n.args = n.posonlyargs + n.args
            n.posonlyargs = []
    return tree


def analyse(src, opts, minify, preserve_locals=None, preserve_globals=None):
    """minify(src, opts, preserve_locals, preserve_globals) -> text. Returns a dict; 'status' in ok / violation / domain / raises."""
    if _compiles(src) is not None:
        return {'status': 'domain', 'why': 'source does not compile'}
    opts = dict((k, bool(opts.get(k, False))) for k in SWITCHES)
    want_posargs = opts['convert_posargs_to_args']
    # The positional-only marker is removed after renaming and does not influence it; analysing with the marker kept
    # lets parameter kinds be read off the output. The relation to the requested option set is checked separately.
    o_r = dict(opts, convert_posargs_to_args=False)
    o_b = dict(o_r, rename_locals=False, rename_globals=False, hoist_literals=False)
    pure = not any(o_b[k] for k in SWITCHES if k != 'preserve_shebang')
    try:
        out = minify(src, o_r, preserve_locals, preserve_globals)
        out_full = minify(src, opts, preserve_locals, preserve_globals) if want_posargs else out
        base = src if pure else minify(src, o_b, None, None)
    except BaseException as e:
        return {'status': 'raises', 'exception': type(e).__name__}
    c = _compiles(out_full)
    if c is not None:
        return fail(('output-not-compilable', norm_msg(c)), {'out': out_full[:1500], 'error': c})
    c = _compiles(out)
    if c is not None:
        return fail(('output-not-compilable', norm_msg(c)), {'out': out[:1500], 'error': c})
    B = _parse(base)
    R = _parse(out)
    out_module_bound = set(scopes.Resolver(_parse(out)).module_bound)
    if want_posargs:
        d = strict_ast.diff(merge_posargs(_parse(out)), _parse(out_full))
        if d is not None:
            return fail(('posargs-conversion-changes-more-than-the-marker',), {'diff': d})
    try:
        al = align.Alignment(B, R)
    except align.AlignError as e:
        return fail(e.signature, {'where': e.detail, 'out': out[:1500], 'base': base[:800]})
    # hoisted uses must not sit where a name would mean something else
    bad = replacement_positions(R, al)
    if bad:
        return fail(('hoisted-literal-in-forbidden-position', bad), {'out': out[:1500]})
    try:
        R2, records, resR2 = align.inline_aliases(R, al)
    except align.AlignError as e:
        return fail(e.signature, {'where': e.detail, 'out': out[:1500]})
    try:
        al2, resB, resR2b, fwd, spell = align.binding_maps(B, R2, resR2)
    except align.AlignError as e:
        return fail(e.signature, {'where': e.detail, 'out': out[:1500], 'base': base[:800]})
    f = {'status': 'ok', 'out': out, 'pure': pure}
    f['renamed'] = sorted(set((k[2], n) for k, names in spell.items() for n in names if n != k[2]))
    f['_spell'] = spell
    f['aliases'] = [{'name': r['name'], 'container': r['container'], 'index': r['index'], 'p': r['p'], 'value': [r['value'][0], repr(r['value'][1])[:60]],
                     'uses': r['uses']} for r in records]
    f['n_scopes'] = len(resB.scopes)
    f['annotation_scopes'] = resB.has_annotation_scopes
    # facts for the clients
    f['_al2'] = al2
    f['_resB'] = resB
    f['_resR2'] = resR2
    f['_fwd'] = fwd
    f['_records'] = records
    f['_B'] = B
    f['_R2'] = R2
    f['_R'] = R
    f['_out_module_bound'] = out_module_bound
    return f


def replacement_positions(R, al):
    """A literal replaced by a name must not be a statement on its own (docstring position), a __slots__ value in a class body,
    f-string literal text or part of a match pattern."""
    if not al.replacements:
        return None
    names = set(id(r) for (_, r) in al.replacements)
    parents = {}
    for n in ast.walk(R):
        for c in ast.iter_child_nodes(n):
            parents[id(c)] = n
    extra_stmts = [st for (_, st, _) in al.extras]
    for (b_, r) in al.replacements:
        p = parents.get(id(r))
        if isinstance(p, ast.Expr):
            # only the docstring position matters: another literal statement replaced by a name still evaluates to the same value
            owner = parents.get(id(p))
            if isinstance(b_, ast.Constant) and isinstance(b_.value, str) and isinstance(owner, (ast.Module, ast.ClassDef) + FUNC):
                body = [st for st in owner.body if st not in extra_stmts]
                if body and body[0] is p:
                    return 'docstring-position'
            continue
        if isinstance(p, ast.JoinedStr):
            return 'f-string-text'
        q = p
        child = r
        while q is not None and not isinstance(q, ast.stmt):
            if isinstance(q, getattr(ast, 'pattern', ())) or isinstance(q, getattr(ast, 'match_case', ())) and child is q.pattern:
                return 'match-pattern'
            child = q
            q = parents.get(id(q))
        if isinstance(q, ast.Assign) and isinstance(parents.get(id(q)), ast.ClassDef) and \
                any(isinstance(t, ast.Name) and t.id == '__slots__' for t in q.targets):
            return '__slots__'
    return None


# -- C04: interface names ---------------------------------------------------------------------------------------------

def is_dunder(n):
    return isinstance(n, str) and n.startswith('__') and n.endswith('__') and len(n) > 4


def check_interface(f, opts):
    """Returns None or (signature, detail)."""
    al2 = f['_al2']
    resB = f['_resB']
    B = f['_B']
    parents = {}
    for n in ast.walk(B):
        for c in ast.iter_child_nodes(n):
            parents[id(c)] = n
    scope_kind = dict((s.index, s.kind) for s in resB.scopes)
    # names a class body actually stores (a name that is only ever `del`eted there never becomes an attribute)
    stored_in_class = set()
    for s_ in resB.scopes:
        if s_.kind == 'class':
            for (node, slot, name, ctx) in s_.occ:
                if ctx == 'store':
                    for k in resB.keys[(id(node), slot)]:
                        stored_in_class.add(k)
    for p in al2.pairs:
        if p.role in ('attr', 'keyword', 'import-name', 'import-module', 'kwd_attr'):
            if p.bname != p.rname:
                return ('interface-name-changed', p.role), '%r -> %r' % (p.bname, p.rname)
            continue
        if p.bname == p.rname:
            continue
        if is_dunder(p.bname):
            return ('interface-name-changed', 'dunder'), '%r -> %r' % (p.bname, p.rname)
        keys = resB.key_of(p.b, p.slot) or []
        for k in keys:
            if k[0] == 'L' and scope_kind.get(k[1]) == 'class' and k in stored_in_class:
                return ('interface-name-changed', 'class-body-binding'), '%r -> %r' % (p.bname, p.rname)
        if isinstance(p.b, ast.arg):
            args = parents.get(id(p.b))
            func = parents.get(id(args))
            kind = None
            if p.b in getattr(args, 'posonlyargs', []):
                kind = 'posonly'
            elif p.b is args.vararg or p.b is args.kwarg:
                kind = 'star'
            elif p.b in args.kwonlyargs:
                kind = 'kwonly'
            else:
                kind = 'positional-or-keyword'
            if kind in ('kwonly', 'positional-or-keyword'):
                if isinstance(func, ast.Lambda):
                    return ('interface-name-changed', 'lambda-parameter'), '%r -> %r' % (p.bname, p.rname)
                exempt = False
                # "directly in a class body" = the def binds its name in the class namespace (it may sit inside an if/for/try/with/match
                # block of the class body), as opposed to being nested in another function
                owner = parents.get(id(func))
                while owner is not None and not isinstance(owner, (ast.ClassDef, ast.Lambda, ast.Module) + FUNC):
                    owner = parents.get(id(owner))
                if isinstance(func, FUNC) and isinstance(owner, ast.ClassDef) and kind == 'positional-or-keyword':
                    allargs = getattr(args, 'posonlyargs', []) + args.args
                    if allargs and allargs[0] is p.b:
                        decos = func.decorator_list
                        if len(decos) == 0 or (len(decos) == 1 and isinstance(decos[0], ast.Name) and decos[0].id == 'classmethod'):
                            exempt = True
                if not exempt:
                    return ('interface-name-changed', 'keyword-callable-parameter', kind), '%r -> %r in %s' % (p.bname, p.rname, getattr(func, 'name', 'lambda'))
    # module level
    resR2 = f['_resR2']
    bm = set(resB.module_bound)
    rm = set(f['_out_module_bound'])   # of the output as printed (the aligned tree has had its constant aliases inlined)
    if not opts.get('rename_globals'):
        missing = bm - rm
        if missing:
            return ('module-level-name-lost',), sorted(missing)[:5]
        extra = [n for n in rm - bm if not n.startswith('_')]
        if extra:
            return ('new-module-level-name-without-underscore',), sorted(extra)[:5]
    else:
        # entries of a literal __all__ keep their spelling
        for st in B.body:
            tgt = None
            if isinstance(st, ast.Assign):
                tgt = [t for t in st.targets if isinstance(t, ast.Name) and t.id == '__all__']
            elif isinstance(st, (ast.AugAssign, ast.AnnAssign)) and isinstance(st.target, ast.Name) and st.target.id == '__all__':
                tgt = [st.target]
            if tgt and isinstance(getattr(st, 'value', None), ast.List):
                for el in st.value.elts:
                    if isinstance(el, ast.Constant) and isinstance(el.value, str) and el.value in bm and el.value not in rm:
                        return ('name-in-__all__-renamed',), el.value
    return None


# -- C10: preserved names -----------------------------------------------------------------------------------------------

def literal_all(B):
    names = []
    for st in B.body:
        tgt = None
        if isinstance(st, ast.Assign):
            tgt = [t for t in st.targets if isinstance(t, ast.Name) and t.id == '__all__']
        elif isinstance(st, (ast.AugAssign, ast.AnnAssign)) and isinstance(st.target, ast.Name) and st.target.id == '__all__':
            tgt = [st.target]
        if tgt and isinstance(getattr(st, 'value', None), ast.List):
            for el in st.value.elts:
                if isinstance(el, ast.Constant) and isinstance(el.value, str):
                    names.append(el.value)
    return names


def check_preserved(f, preserve_locals, preserve_globals):
    resB = f['_resB']
    kinds = dict((s.index, s.kind) for s in resB.scopes)
    pg = set(preserve_globals or ()) | set(literal_all(f['_B']))
    pl = set(preserve_locals or ())
    hits = 0
    for k, names in f['_spell'].items():
        if k[0] != 'L':
            continue
        changed = sorted(n for n in names if n != k[2])
        if k[1] == 0:
            if k[2] in pg:
                hits += 1
                if changed:
                    return ('preserved-global-renamed',), '%s -> %s' % (k[2], changed[0]), hits
        elif kinds.get(k[1]) in ('function', 'lambda', 'comp', 'class'):
            if k[2] in pl:
                hits += 1
                if changed:
                    return ('preserved-local-renamed',), '%s -> %s' % (k[2], changed[0]), hits
    return None, None, hits


# -- C06: docstrings and __future__ imports ---------------------------------------------------------------------------------

def check_docstrings(B, R):
    """Walk both trees in lock step over Module/def/class bodies: docstrings equal, __future__ imports precede all but the docstring."""
    def bodies(t):
        out = []
        for n in ast.walk(t):
            if isinstance(n, (ast.Module, ast.ClassDef) + FUNC):
                out.append(n)
        return out
    bb = bodies(B)
    rb = bodies(R)
    if len(bb) != len(rb):
        return ('structure', 'definition-count'), None
    for b, r in zip(bb, rb):
        if ast.get_docstring(b, clean=False) != ast.get_docstring(r, clean=False):
            return ('docstring-changed', type(b).__name__), {'before': ast.get_docstring(b, clean=False), 'after': ast.get_docstring(r, clean=False)}
    seen_other = False
    for i, st in enumerate(R.body):
        if isinstance(st, ast.ImportFrom) and st.module == '__future__':
            if seen_other:
                return ('__future__-import-not-first',), i
        elif not (i == 0 and isinstance(st, ast.Expr) and isinstance(st.value, ast.Constant) and isinstance(st.value.value, str)):
            seen_other = True
    return None, None
