"""C12 execution monitor: what does python_minifier evaluate, import or open while it minifies?

stdlib only; valid on Python 2.7 and 3.6+.

* builtins.eval / exec / compile / __import__ are wrapped. A call whose caller is a python_minifier module is
  judged: the text/code handed to eval/exec must compile to a *closed literal expression* (no names at all,
  no nested code objects). If it is not, the event is recorded AND the evaluation is refused (the payload is
  never run by the harness).
* on >= 3.8 an audit hook records exec/import/open/os.system/subprocess/socket/ctypes events while active.
"""
import sys
import types

try:
    import builtins
except ImportError:  # python 2
    import __builtin__ as builtins

PY2 = sys.version_info[0] == 2
ALLOWED_NAMES = ('True', 'False', 'None') if PY2 else ()

_real = {'eval': builtins.eval, 'compile': builtins.compile, '__import__': builtins.__import__}
if not PY2:
    _real['exec'] = getattr(builtins, 'exec')


PSEUDO_FILENAMES = ('FString candidate', 'python_minifier.minify source', 'python_minifier.f_string output',
                    'python_minifier.unparse output', 'folded expression', '<string>', '<monitored>', '<unknown>')


class Refused(Exception):
    pass


class Monitor(object):
    def __init__(self):
        self.active = False
        self.events = []        # violations
        self.evaluated = []     # texts/codes evaluated from python_minifier frames (closed literals)
        self.imports = []
        self.installed = False
        self.audit_installed = False
        self.baseline_modules = set()

    # -- judging ------------------------------------------------------------------------------
    def closed_literal(self, code):
        names = tuple(n for n in code.co_names if n not in ALLOWED_NAMES)
        if names or code.co_varnames or code.co_freevars or code.co_cellvars:
            return False
        for c in code.co_consts:
            if isinstance(c, types.CodeType):
                return False
        return True

    def from_minifier(self, frame):
        mod = frame.f_globals.get('__name__', '')
        return mod == 'python_minifier' or mod.startswith('python_minifier.')

    def judge(self, what, source, frame, mode):
        if isinstance(source, types.CodeType):
            code = source
            text = '<code %s>' % (source.co_name,)
        else:
            text = source
            try:
                code = _real['compile'](source, '<monitored>', mode)
            except BaseException:
                # does not compile: nothing can run
                self.evaluated.append((what, _short(text), 'uncompilable'))
                return True
        if self.closed_literal(code):
            self.evaluated.append((what, _short(text), 'closed-literal'))
            return True
        self.events.append({'kind': 'non-literal-' + what, 'text': _short(text), 'names': list(code.co_names)[:8],
                            'where': '%s:%s' % (frame.f_code.co_filename.split('python_minifier/')[-1], frame.f_code.co_name)})
        return False

    # -- installation -----------------------------------------------------------------------------
    def install(self):
        if self.installed:
            return
        mon = self

        def eval_(source, *args):
            if mon.active:
                fr = sys._getframe(1)
                if mon.from_minifier(fr):
                    if not mon.judge('eval', source, fr, 'eval'):
                        raise Refused('monitor refused to evaluate non-literal text')
                    return _real['eval'](source, *args)
            if not args:
                fr = sys._getframe(1)
                return _real['eval'](source, fr.f_globals, fr.f_locals)
            return _real['eval'](source, *args)

        def import_(name, *args, **kw):
            if mon.active:
                fr = sys._getframe(1)
                root = name.split('.')[0]
                if name not in sys.modules and root not in ('python_minifier', 'encodings'):
                    mon.imports.append(name)
                    if mon.from_minifier(fr) or 'verif_canary' in name:
                        mon.events.append({'kind': 'import', 'text': name, 'where': fr.f_code.co_filename[-60:]})
                if 'verif_canary' in name:
                    raise Refused('canary import refused')
            return _real['__import__'](name, *args, **kw)

        builtins.eval = eval_
        builtins.__import__ = import_
        if not PY2:
            def exec_(source, *args):
                if mon.active:
                    fr = sys._getframe(1)
                    if mon.from_minifier(fr):
                        if not mon.judge('exec', source, fr, 'exec'):
                            raise Refused('monitor refused to exec non-literal text')
                if not args:
                    fr = sys._getframe(1)
                    return _real['exec'](source, fr.f_globals, fr.f_locals)
                return _real['exec'](source, *args)
            setattr(builtins, 'exec', exec_)
        if hasattr(sys, 'addaudithook') and not self.audit_installed:
            def hook(event, args):
                if not mon.active:
                    return
                if event in ('os.system', 'os.exec', 'os.posix_spawn', 'os.spawn', 'subprocess.Popen', 'os.fork', 'os.forkpty') or \
                        event.startswith('socket.') or event.startswith('ctypes.') or event in ('urllib.Request', 'ftplib.connect', 'http.client.connect'):
                    mon.events.append({'kind': 'audit:' + event, 'text': _short(repr(args))})
                elif event == 'open':
                    path = args[0]
                    # the import system opens files of python_minifier/stdlib modules on lazy import; anything else is input driven
                    p = str(path)
                    # When ast.parse raises a SyntaxError the interpreter looks for the source line of the *filename argument*;
                    # python_minifier passes fixed pseudo file names there (not input content).
                    if not (p.endswith(('.py', '.pyc', '.so', '.pth')) or '__pycache__' in p or p.startswith(('/proc/', '/usr/lib', '/root/.pyenv'))
                            or p in PSEUDO_FILENAMES or (p.startswith('<') and p.endswith('>'))):
                        mon.events.append({'kind': 'audit:open', 'text': _short(p)})
                elif event == 'exec':
                    code = args[0]
                    # attribute by the frame that called eval/exec (depth: hook <- eval builtin wrapper?)
                    try:
                        fr = sys._getframe(1)
                    except ValueError:
                        return
                    depth = 0
                    while fr is not None and depth < 4:
                        if mon.from_minifier(fr):
                            if isinstance(code, types.CodeType) and not mon.closed_literal(code) and code.co_filename == '<string>':
                                mon.events.append({'kind': 'audit:exec-non-literal', 'text': _short(repr(code.co_names)),
                                                   'where': fr.f_code.co_name})
                            break
                        if fr.f_code.co_filename != __file__.replace('.pyc', '.py'):
                            break
                        fr = fr.f_back
                        depth += 1
            sys.addaudithook(hook)
            self.audit_installed = True
        self.installed = True

    def begin(self):
        self.events = []
        self.evaluated = []
        self.imports = []
        self.active = True

    def end(self):
        self.active = False
        return self.events, self.evaluated


def _short(x):
    try:
        s = x if isinstance(x, str) else repr(x)
    except Exception:
        s = '<unrepresentable>'
    return s[:200]


MONITOR = Monitor()


def monitored(fn):
    """Run fn() under the monitor. Returns (result or exception name, events, evaluated)."""
    MONITOR.install()
    MONITOR.begin()
    try:
        try:
            r = fn()
            out = ('ok', r)
        except BaseException as e:
            out = ('raised', type(e).__name__)
    finally:
        events, evaluated = MONITOR.end()
    return out, events, evaluated


def audit_minify(src, kwargs, components=()):
    """Minify `src` under the monitor (after the caller has warmed up lazy imports).
    Returns {'ok': bool, 'signature': [...], 'observed': ..., 'evaluated': n, 'samples': [...], 'outcome': ...}."""
    import python_minifier

    def work():
        python_minifier.minify(src, **kwargs)

    out, events, evaluated = monitored(work)
    for what, payload in components:
        def drive(what=what, payload=payload):
            return drive_component(what, payload)
        o2, e2, v2 = monitored(drive)
        events += e2
        evaluated += v2
    if CANARY in sys.modules:
        events.append({'kind': 'canary-imported', 'text': CANARY})
    rep = {'ok': not events, 'evaluated': len(evaluated), 'samples': [list(x) for x in evaluated[:3]], 'outcome': out[0] if out[0] == 'ok' else out[1]}
    if events:
        e = events[0]
        rep['signature'] = [e['kind'], e.get('where', '')]
        rep['observed'] = events[:3]
    return rep


CANARY = 'verif_canary_7'


def drive_component(what, payload):
    """Drive the quoting components directly with hostile data; exceptions are theirs to raise, only the monitor judges."""
    from python_minifier import f_string, ministring
    quotes = ['"', "'", '"""', "'''"]
    try:
        if what == 'MiniString':
            for q in quotes:
                try:
                    str(ministring.MiniString(payload, q))
                except Refused:
                    raise
                except Exception:
                    pass
        elif what == 'Str':
            for pep in (False, True):
                for allowed in (quotes, quotes[:1], quotes[1:3]):
                    try:
                        str(f_string.Str(payload, list(allowed), pep))
                    except Refused:
                        raise
                    except Exception:
                        pass
        elif what == 'Bytes':
            for allowed in (quotes, quotes[:1], quotes[1:3]):
                try:
                    str(f_string.Bytes(payload, list(allowed)))
                except Refused:
                    raise
                except Exception:
                    pass
    except Refused:
        pass
