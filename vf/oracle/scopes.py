"""Independent scope resolver over the stdlib ast (no code shared with python_minifier).

Implements the language reference's rules: scopes are module, def/async def, lambda, class and the four
comprehension kinds (first iterable evaluated outside); binding forms: assignment targets, augmented and annotated
assignment, for/with/except/import targets, def/class names, parameters, walrus (binds in the nearest
non-comprehension scope), match captures, del, global/nonlocal; class scopes are skipped when resolving from
nested functions; decorators, defaults, annotations, bases and keywords belong to the enclosing scope.

For every identifier occurrence (node, slot) it yields a list of binding keys:
    ('L', scope_index, name)   a binding local to that scope (module bindings are ('L', 0, name))
    ('U', name)                unbound in the module: builtin or undefined
A load of a class-local name in a class body is a LOAD_NAME (class dict, then globals/builtins): depending on the one
flow-sensitive rule it yields the class key, the fallback key, or both (ambiguous order).

stdlib only, valid on Python 3.8+.
"""
import ast
import sys

COMP = (ast.ListComp, ast.SetComp, ast.DictComp, ast.GeneratorExp)
FUNC = (ast.FunctionDef, ast.AsyncFunctionDef)
TYPE_PARAM_NODES = tuple(getattr(ast, n) for n in ('TypeVar', 'TypeVarTuple', 'ParamSpec') if hasattr(ast, n))
TYPE_ALIAS = getattr(ast, 'TypeAlias', ())
MATCH_NAME_NODES = tuple(getattr(ast, n) for n in ('MatchAs', 'MatchStar') if hasattr(ast, n))
MATCH_MAPPING = getattr(ast, 'MatchMapping', ())


class Scope(object):
    def __init__(self, kind, node, parent, index):
        self.kind = kind        # module function lambda comp class
        self.node = node
        self.parent = parent
        self.index = index
        self.bound = set()      # names bound by a binding form in this scope
        self.params = set()
        self.globals_ = set()
        self.nonlocals = set()
        self.used = set()
        self.children = []
        self.occ = []           # (node, slot, name, ctx) in this scope

    def function_like(self):
        return self.kind in ('function', 'lambda', 'comp')

    def is_local(self, name):
        return name in self.bound and name not in self.globals_ and name not in self.nonlocals

    def __repr__(self):
        return '<Scope %d %s %s>' % (self.index, self.kind, getattr(self.node, 'name', ''))


class Resolver(object):
    def __init__(self, tree):
        self.tree = tree
        self.scopes = []
        self.has_annotation_scopes = False
        self.class_flow = {}    # id(Name node) -> 'before' | 'after' | 'ambiguous'
        self.fallback_occ = set()
        self.ambiguous_class_loads = 0
        self.module = self.new_scope('module', tree, None)
        self.visit_body(tree.body, self.module)
        self.keys = {}
        self.resolve_all()

    # -- pass 1: scopes, bindings, occurrences ---------------------------------------------------------
    def new_scope(self, kind, node, parent):
        s = Scope(kind, node, parent, len(self.scopes))
        self.scopes.append(s)
        if parent is not None:
            parent.children.append(s)
        return s

    def occ(self, scope, node, slot, name, ctx):
        scope.occ.append((node, slot, name, ctx))
        if ctx in ('store', 'del', 'param'):
            scope.bound.add(name)
        else:
            scope.used.add(name)

    def visit_body(self, body, scope):
        for st in body:
            self.visit(st, scope)

    def visit(self, node, scope):
        if node is None:
            return
        m = getattr(self, 'v_' + type(node).__name__, None)
        if m is not None:
            return m(node, scope)
        return self.generic(node, scope)

    def generic(self, node, scope):
        for f in node._fields:
            v = getattr(node, f, None)
            if isinstance(v, list):
                for x in v:
                    if isinstance(x, ast.AST):
                        self.visit(x, scope)
            elif isinstance(v, ast.AST):
                self.visit(v, scope)

    def v_Name(self, node, scope):
        ctx = {'Load': 'load', 'Store': 'store', 'Del': 'del'}[type(node.ctx).__name__]
        self.occ(scope, node, 'id', node.id, ctx)

    def v_Global(self, node, scope):
        for i, n in enumerate(node.names):
            scope.globals_.add(n)
            scope.occ.append((node, ('names', i), n, 'decl'))

    def v_Nonlocal(self, node, scope):
        for i, n in enumerate(node.names):
            scope.nonlocals.add(n)
            scope.occ.append((node, ('names', i), n, 'decl'))

    def arguments(self, args, fscope, outer):
        for a in getattr(args, 'posonlyargs', []) + args.args + args.kwonlyargs + [args.vararg, args.kwarg]:
            if a is None:
                continue
            fscope.params.add(a.arg)
            self.occ(fscope, a, 'arg', a.arg, 'param')
            if a.annotation is not None:
                self.visit(a.annotation, outer)
        for d in args.defaults + [k for k in args.kw_defaults if k is not None]:
            self.visit(d, outer)

    def v_FunctionDef(self, node, scope):
        for d in node.decorator_list:
            self.visit(d, scope)
        self.occ(scope, node, 'name', node.name, 'store')
        outer = scope
        if getattr(node, 'type_params', None):
            self.has_annotation_scopes = True
            for tp in node.type_params:
                self.visit(tp, scope)
        fs = self.new_scope('function', node, scope)
        self.arguments(node.args, fs, outer)
        if node.returns is not None:
            self.visit(node.returns, outer)
        self.visit_body(node.body, fs)

    v_AsyncFunctionDef = v_FunctionDef

    def v_Lambda(self, node, scope):
        fs = self.new_scope('lambda', node, scope)
        self.arguments(node.args, fs, scope)
        self.visit(node.body, fs)

    def v_ClassDef(self, node, scope):
        for d in node.decorator_list:
            self.visit(d, scope)
        self.occ(scope, node, 'name', node.name, 'store')
        if getattr(node, 'type_params', None):
            self.has_annotation_scopes = True
            for tp in node.type_params:
                self.visit(tp, scope)
        for b in node.bases:
            self.visit(b, scope)
        for k in node.keywords:
            self.visit(k.value, scope)
        cs = self.new_scope('class', node, scope)
        self.visit_body(node.body, cs)
        self.class_flow_analysis(node, cs)

    def comp(self, node, scope, elts):
        cs = self.new_scope('comp', node, scope)
        for i, g in enumerate(node.generators):
            self.visit(g.iter, scope if i == 0 else cs)
            self.visit(g.target, cs)
            for c in g.ifs:
                self.visit(c, cs)
        for e in elts:
            self.visit(e, cs)

    def v_ListComp(self, node, scope):
        self.comp(node, scope, [node.elt])

    v_SetComp = v_ListComp
    v_GeneratorExp = v_ListComp

    def v_DictComp(self, node, scope):
        self.comp(node, scope, [node.key, node.value])

    def v_NamedExpr(self, node, scope):
        self.visit(node.value, scope)
        t = scope
        while t.kind == 'comp':
            t = t.parent
        self.occ(t, node.target, 'id', node.target.id, 'store')
        if t is not scope:
            # remember where the occurrence textually lives (for reporting)
            pass

    def v_ExceptHandler(self, node, scope):
        if node.type is not None:
            self.visit(node.type, scope)
        if node.name is not None:
            self.occ(scope, node, 'name', node.name, 'store')
        self.visit_body(node.body, scope)

    def v_alias(self, node, scope):
        if node.name == '*':
            return
        bound = node.asname if node.asname is not None else node.name.split('.')[0]
        self.occ(scope, node, 'bound', bound, 'store')

    def v_MatchAs(self, node, scope):
        if node.pattern is not None:
            self.visit(node.pattern, scope)
        if node.name is not None:
            self.occ(scope, node, 'name', node.name, 'store')

    def v_MatchStar(self, node, scope):
        if node.name is not None:
            self.occ(scope, node, 'name', node.name, 'store')

    def v_MatchMapping(self, node, scope):
        for k in node.keys:
            self.visit(k, scope)
        for p in node.patterns:
            self.visit(p, scope)
        if node.rest is not None:
            self.occ(scope, node, 'rest', node.rest, 'store')

    def v_AnnAssign(self, node, scope):
        if node.value is not None:
            self.visit(node.value, scope)
        self.visit(node.annotation, scope)
        if isinstance(node.target, ast.Name):
            # an annotated simple name is a binding of its scope even without a value
            self.occ(scope, node.target, 'id', node.target.id, 'store')
        else:
            self.visit(node.target, scope)

    def v_AugAssign(self, node, scope):
        self.visit(node.value, scope)
        if isinstance(node.target, ast.Name):
            self.occ(scope, node.target, 'id', node.target.id, 'store')
            scope.used.add(node.target.id)
        else:
            self.visit(node.target, scope)

    def v_TypeVar(self, node, scope):
        self.has_annotation_scopes = True
        self.occ(scope, node, 'name', node.name, 'store')
        self.generic(node, scope)

    v_TypeVarTuple = v_TypeVar
    v_ParamSpec = v_TypeVar

    def v_TypeAlias(self, node, scope):
        self.has_annotation_scopes = True
        self.generic(node, scope)

    # -- class bodies: the one flow-sensitive rule ---------------------------------------------------------
    def class_flow_analysis(self, cls, cs):
        """For every Load of a class-local name directly in the class scope decide whether a store definitely precedes it."""
        stores_before = {}      # name -> 'definite' | 'maybe'
        deleted = set(n for (node, slot, n, ctx) in cs.occ if ctx == 'del')

        def names_stored(st, definite):
            out = []
            for sub in self.direct_nodes(st):
                if isinstance(sub, ast.Name) and isinstance(sub.ctx, ast.Store):
                    out.append(sub.id)
                elif isinstance(sub, FUNC + (ast.ClassDef,)):
                    out.append(sub.name)
                elif isinstance(sub, ast.alias) and sub.name != '*':
                    out.append(sub.asname or sub.name.split('.')[0])
                elif isinstance(sub, ast.ExceptHandler) and sub.name:
                    out.append(sub.name)
                elif isinstance(sub, MATCH_NAME_NODES) and sub.name:
                    out.append(sub.name)
                elif isinstance(sub, MATCH_MAPPING) and sub.rest:
                    out.append(sub.rest)
            return out

        for st in cls.body:
            in_loop_or_cond = not isinstance(st, (ast.Assign, ast.AnnAssign, ast.AugAssign, ast.Expr, ast.Import, ast.ImportFrom, ast.Delete,
                                                  ast.Assert, ast.Raise, ast.Pass, ast.Global, ast.Nonlocal) + FUNC + (ast.ClassDef,))
            loops = any(isinstance(x, (ast.For, ast.While, ast.AsyncFor)) for x in self.direct_nodes(st))
            stored_here = names_stored(st, not in_loop_or_cond)
            for sub in self.direct_nodes(st):
                if isinstance(sub, ast.Name) and isinstance(sub.ctx, ast.Load) and cs.is_local(sub.id):
                    n = sub.id
                    prior = stores_before.get(n)
                    if n in deleted or loops or (in_loop_or_cond and n in stored_here):
                        flow = 'ambiguous'
                    elif prior == 'definite':
                        flow = 'after'
                    elif prior == 'maybe':
                        flow = 'ambiguous'
                    elif isinstance(st, ast.AugAssign):
                        flow = 'before'
                    elif n in stored_here and not isinstance(st, (ast.Assign, ast.AnnAssign, ast.AugAssign)):
                        # e.g. decorators/defaults of a def that binds the same name: evaluated before the binding
                        flow = 'before'
                    else:
                        flow = 'before'
                    self.class_flow[id(sub)] = flow
            simple_definite = isinstance(st, (ast.Assign, ast.Import, ast.ImportFrom) + FUNC + (ast.ClassDef,)) or \
                (isinstance(st, ast.AnnAssign) and st.value is not None)
            for n in stored_here:
                if simple_definite and self.is_plain_store(st, n):
                    stores_before[n] = 'definite'
                elif stores_before.get(n) != 'definite':
                    stores_before[n] = 'maybe'
            # a walrus anywhere in the statement stores too
            for sub in self.direct_nodes(st):
                if isinstance(sub, ast.NamedExpr) and stores_before.get(sub.target.id) != 'definite':
                    stores_before[sub.target.id] = 'maybe'

    def is_plain_store(self, st, n):
        if isinstance(st, ast.Assign):
            for t in st.targets:
                for x in ast.walk(t):
                    if isinstance(x, ast.Name) and x.id == n and isinstance(x.ctx, ast.Store):
                        return True
            return False
        return True

    def direct_nodes(self, st):
        """Nodes of a statement that execute in the same (class) scope: do not descend into nested scopes' bodies."""
        out = []

        def rec(n, top):
            out.append(n)
            if isinstance(n, FUNC):
                for d in n.decorator_list:
                    rec(d, False)
                for a in getattr(n.args, 'posonlyargs', []) + n.args.args + n.args.kwonlyargs + [n.args.vararg, n.args.kwarg]:
                    if a is not None and a.annotation is not None:
                        rec(a.annotation, False)
                for d in n.args.defaults + [k for k in n.args.kw_defaults if k is not None]:
                    rec(d, False)
                if n.returns is not None:
                    rec(n.returns, False)
                return
            if isinstance(n, ast.Lambda):
                for d in n.args.defaults + [k for k in n.args.kw_defaults if k is not None]:
                    rec(d, False)
                return
            if isinstance(n, ast.ClassDef):
                for d in n.decorator_list + n.bases + [k.value for k in n.keywords]:
                    rec(d, False)
                return
            if isinstance(n, COMP):
                rec(n.generators[0].iter, False)
                return
            for c in ast.iter_child_nodes(n):
                rec(c, False)
        rec(st, True)
        return out

    # -- pass 2: resolution ------------------------------------------------------------------------------------
    def module_key(self, name):
        if name in self.module_bound:
            return ('L', 0, name)
        return ('U', name)

    def resolve_free(self, scope, name):
        """Resolve `name` looked up from `scope` where it is not local: enclosing function-like scopes, then module."""
        t = scope.parent
        while t is not None and t.kind != 'module':
            if t.function_like():
                if name in t.globals_:
                    return self.module_key(name)
                if name in t.bound and name not in t.nonlocals:
                    return ('L', t.index, name)
            t = t.parent
        return self.module_key(name)

    def resolve_in(self, scope, name):
        if scope.kind == 'module':
            return self.module_key(name)
        if name in scope.globals_:
            return self.module_key(name)
        if name in scope.nonlocals:
            return self.resolve_free(scope, name)
        if name in scope.bound:
            return ('L', scope.index, name)
        return self.resolve_free(scope, name)

    def resolve_all(self):
        # names bound at module level: by the module itself or through `global` in any scope
        mb = set(self.module.bound)
        for s in self.scopes:
            if s.kind != 'module':
                # a name declared `global` anywhere is one of the module's own global variables, assigned or not
                mb |= s.globals_
        self.module_bound = mb
        # names some binding form actually assigns at module level (in the module itself, or in a scope that declares them global);
        # a name that is only *declared* global is still the builtin of that name at run time
        ma = set(self.module.bound)
        for s in self.scopes:
            if s.kind != 'module':
                ma |= (s.globals_ & s.bound)
        self.module_assigned = ma
        for s in self.scopes:
            for (node, slot, name, ctx) in s.occ:
                key = self.resolve_in(s, name)
                keys = [key]
                if s.kind == 'class' and ctx == 'load' and s.is_local(name):
                    flow = self.class_flow.get(id(node), 'ambiguous')
                    fallback = self.module_key(name)
                    if flow == 'before':
                        # definitely read before any store in the class body: LOAD_NAME falls through to globals/builtins
                        keys = [fallback]
                        self.fallback_occ.add((id(node), slot))
                    elif flow == 'ambiguous':
                        # conditional stores, loops, del: the order cannot be decided statically. Not guessed: the occurrence
                        # is tied to the class binding only and its fall-through target is excluded from assertions (counted).
                        self.ambiguous_class_loads += 1
                self.keys[(id(node), slot)] = keys

    def key_of(self, node, slot):
        return self.keys.get((id(node), slot))

    # -- classification (for the symtable cross-check) -----------------------------------------------------------
    def classify(self):
        """Per scope: {name: set of flags} with flags in local/global/free/param, comparable with symtable."""
        out = []
        for s in self.scopes:
            d = {}
            names = set(n for (_, _, n, _) in s.occ)
            for n in names:
                flags = set()
                if n in s.params:
                    flags.add('param')
                if s.kind == 'module':
                    flags.add('local' if n in s.bound else 'global')
                elif n in s.globals_:
                    flags.add('global')
                elif n in s.nonlocals:
                    flags.add('free')
                elif n in s.bound:
                    flags.add('local')
                else:
                    k = self.resolve_free(s, n)
                    if k[0] == 'L' and k[1] != 0:
                        flags.add('free')
                    else:
                        flags.add('global')
                d[n] = flags
            out.append((s, d))
        return out


def symtable_check(src):
    """Compare the resolver's per-scope classification with CPython's symtable. Returns (n_scopes_agreeing, disagreements)."""
    import symtable
    tree = ast.parse(src)
    r = Resolver(tree)
    if r.has_annotation_scopes:
        return 0, []
    for st in tree.body:
        if isinstance(st, ast.ImportFrom) and st.module == '__future__' and any(a.name == 'annotations' for a in st.names):
            # annotations are not compiled, symtable does not visit them; the resolver still resolves the names in them
            return 0, []
    top = symtable.symtable(src, '<sym>', 'exec')
    tables = []

    def walk(t):
        tables.append(t)
        for c in t.get_children():
            walk(c)
    walk(top)

    def sig_sym(t):
        d = {}
        for s in t.get_symbols():
            flags = set()
            if s.is_parameter():
                flags.add('param')
            if t.get_type() == 'module' or str(t.get_type()).endswith('MODULE'):
                flags.add('local' if s.is_local() else 'global')
            elif s.is_global():
                flags.add('global')
            elif s.is_free():
                flags.add('free')
            elif s.is_local():
                flags.add('local')
            else:
                continue
            d[s.get_name()] = frozenset(flags)
        return d

    mine = r.classify()
    kindmap = {'module': 'module', 'function': 'function', 'lambda': 'function', 'comp': 'function', 'class': 'class'}
    a = {}
    for s, d in mine:
        name = {'module': 'top', 'lambda': 'lambda', 'comp': {'ListComp': 'listcomp', 'SetComp': 'setcomp', 'DictComp': 'dictcomp', 'GeneratorExp': 'genexpr'}.get(type(s.node).__name__)}.get(s.kind, getattr(s.node, 'name', '?'))
        line = getattr(s.node, 'lineno', 0) if s.kind != 'module' else 0
        # implicit names the compiler adds are not in the resolver's view
        dd = dict((k, frozenset(v)) for k, v in d.items())
        a.setdefault((kindmap[s.kind], name, line), []).append(dd)
    b = {}
    for t in tables:
        d = sig_sym(t)
        for implicit in ('.0', '__class__', '__classdict__', '__conditional_annotations__'):
            d.pop(implicit, None)
        b.setdefault((t.get_type() if isinstance(t.get_type(), str) else str(t.get_type()), t.get_name(), t.get_lineno() if t.get_type() != 'module' else 0), []).append(d)
    dis = []
    agree = 0
    for k in set(a) | set(b):
        la = sorted(a.get(k, []), key=lambda d: sorted(d.items()).__repr__())
        lb = sorted(b.get(k, []), key=lambda d: sorted(d.items()).__repr__())
        if len(la) != len(lb):
            dis.append(('scope-count', k, len(la), len(lb)))
            continue
        if k[0] == 'module':
            # at module level local and global are the same namespace (symtable reports walrus-bound names as global only)
            agree += 1
            continue
        def compatible(x, y):
            return all(x.get(n) == y.get(n) for n in x)

        def match(i, used):
            if i == len(la):
                return True
            for j in range(len(lb)):
                if j not in used and compatible(la[i], lb[j]):
                    used.add(j)
                    if match(i + 1, used):
                        return True
                    used.discard(j)
            return False

        if match(0, set()):
            agree += len(la)
        else:
            worst = []
            for x in la:
                if not any(compatible(x, y) for y in lb):
                    worst = [(n, sorted(x.get(n, ())), [sorted(y.get(n, ())) for y in lb][:3]) for n in x][:4]
                    break
            dis.append(('classification', k, worst))
    return agree, dis
