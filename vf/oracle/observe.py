"""observe(): behaviour of a program = (stdout, terminating exception / exit status, description of the public namespace).

Only non-reflective views enter the observation: values by type+repr, functions by their keyword-callable parameter
names, classes by name and public attribute names, instances by their public __dict__. Names of locals, annotations
and line numbers never do (they are the documented reflective views that may differ)."""
import builtins
import io
import signal
import sys
import types
import warnings


class Timeout(BaseException):
    pass


def _alarm(signum, frame):
    raise Timeout()


def describe(v, depth=0, seen=None):
    if depth > 3:
        return '...'
    t = type(v)
    if v is None or t in (int, float, complex, str, bytes, bool):
        return '%s:%r' % (t.__name__, v)
    if t in (list, tuple):
        return '%s[%s]' % (t.__name__, ','.join(describe(x, depth + 1) for x in v[:50]))
    if t is dict:
        return 'dict{%s}' % ','.join('%s=>%s' % (describe(k, depth + 1), describe(x, depth + 1)) for k, x in list(v.items())[:50])
    if t in (set, frozenset):
        return '%s{%s}' % (t.__name__, ','.join(sorted(describe(x, depth + 1) for x in v)))
    if isinstance(v, types.FunctionType):
        # parameter names are judged behaviourally (programs call by keyword and through **{...}) and structurally by C04;
        # convert_posargs_to_args legitimately widens the keyword-callable set, so the signature is not part of the view
        return 'function'
    if isinstance(v, type):
        attrs = sorted(a for a in vars(v) if not a.startswith('_'))
        return 'class %s(%s)' % (v.__name__, ','.join(attrs))
    if isinstance(v, types.ModuleType):
        return 'module %s' % v.__name__
    if isinstance(v, (types.BuiltinFunctionType, types.MethodType)):
        return 'callable'
    d = getattr(v, '__dict__', None)
    if isinstance(d, dict):
        return 'instance %s{%s}' % (type(v).__name__, ','.join('%s=%s' % (k, describe(x, depth + 1)) for k, x in sorted(d.items()) if not k.startswith('_')))
    if isinstance(v, tuple):
        return 'tuple-like[%s]' % ','.join(describe(x, depth + 1) for x in v)
    return 'object %s' % type(v).__name__


def builtin_base(exc):
    for c in type(exc).__mro__:
        if c.__module__ == 'builtins':
            return c.__name__
    return 'BaseException'


def observe(src, timeout=2.0, hide=()):
    """Run src as __main__ in a fresh namespace. Returns (stdout, ending, namespace description) or None on timeout."""
    g = {'__name__': '__main__', '__builtins__': builtins}
    buf = io.StringIO()
    old_out = sys.stdout
    ending = 'normal'
    # CPU-time bound (robust against a loaded machine) plus a generous wall-clock backstop; an expiry anywhere between arming and
    # disarming is "no observation" (inconclusive), never an error and never a verdict
    old_handler = signal.signal(signal.SIGALRM, _alarm)
    old_prof = signal.signal(signal.SIGPROF, _alarm)
    try:
        try:
            signal.setitimer(signal.ITIMER_PROF, timeout)
            signal.setitimer(signal.ITIMER_REAL, timeout * 15)
            sys.stdout = buf
            try:
                with warnings.catch_warnings():
                    warnings.simplefilter('ignore')
                    code = compile(src, '<case>', 'exec', dont_inherit=True)
                    exec(code, g)
            except Timeout:
                return None
            except SystemExit as e:
                ending = 'SystemExit(%r)' % (e.code,)
            except BaseException as e:
                ending = 'raises ' + builtin_base(e)
        finally:
            signal.setitimer(signal.ITIMER_PROF, 0)
            signal.setitimer(signal.ITIMER_REAL, 0)
            sys.stdout = old_out
    except Timeout:
        return None
    finally:
        signal.setitimer(signal.ITIMER_PROF, 0)
        signal.setitimer(signal.ITIMER_REAL, 0)
        signal.signal(signal.SIGALRM, old_handler)
        signal.signal(signal.SIGPROF, old_prof)
        sys.stdout = old_out
    ns = []
    for k, v in g.items():
        if k.startswith('_') or k in hide:
            continue
        try:
            ns.append('%s=%s' % (k, describe(v)))
        except BaseException as e:
            ns.append('%s=<undescribable %s>' % (k, type(e).__name__))
    return buf.getvalue(), ending, sorted(ns)
