"""canon_O: reference canonicaliser for C05, written from docs/source/transforms/*.rst (not from the code).

canon_O erases exactly what an *enabled* option is documented to do, and is applied to BOTH the input tree and the
output tree: an implementation that rewrites less than documented still passes, a rewrite outside the documented
condition (or with the option off) leaves a difference.
"""
import ast
import builtins
import copy

from vf.oracle import scopes

FUNC = (ast.FunctionDef, ast.AsyncFunctionDef)
BUILTIN_EXCEPTIONS = frozenset(n for n in dir(builtins) if isinstance(getattr(builtins, n), type) and issubclass(getattr(builtins, n), BaseException))


def is_debug_test(t):
    """The documented forms: __debug__, __debug__ is True, __debug__ is not False, __debug__ == True."""
    if isinstance(t, ast.Name) and t.id == '__debug__':
        return True
    if isinstance(t, ast.Compare) and len(t.ops) == 1 and isinstance(t.left, ast.Name) and t.left.id == '__debug__':
        c = t.comparators[0]
        if isinstance(c, ast.Constant):
            if isinstance(t.ops[0], (ast.Is, ast.Eq)) and c.value is True:
                return True
            if isinstance(t.ops[0], ast.IsNot) and c.value is False:
                return True
    return False


def is_literal_stmt(st):
    return isinstance(st, ast.Expr) and isinstance(st.value, ast.Constant) and st.value.value is not Ellipsis


def uses_doc_name(tree):
    for n in ast.walk(tree):
        if isinstance(n, ast.Name) and n.id == '__doc__':
            return True
        if isinstance(n, ast.Attribute) and n.attr == '__doc__':
            return True
    return False


def class_is_sensitive(cls):
    """dataclass / NamedTuple / TypedDict by the documented criteria (decorator or base with that name)."""
    for d in cls.decorator_list:
        f = d.func if isinstance(d, ast.Call) else d
        if (isinstance(f, ast.Name) and f.id == 'dataclass') or (isinstance(f, ast.Attribute) and f.attr == 'dataclass'):
            return True
    for b in cls.bases:
        if (isinstance(b, ast.Name) and b.id in ('NamedTuple', 'TypedDict')) or (isinstance(b, ast.Attribute) and b.attr in ('NamedTuple', 'TypedDict')):
            return True
    return False


class Canon(object):
    def __init__(self, opts, tainted_or_unbound, doc_used=None):
        self.o = opts
        self.doc_used = doc_used
        self.unbound_names = tainted_or_unbound     # ids of Name nodes that resolve to an unbound (builtin) name
        self.placeholder = any(opts.get(k) for k in ('remove_pass', 'remove_asserts', 'remove_debug', 'remove_literal_statements', 'remove_explicit_return_none'))

    def run(self, tree):
        # "uses the __doc__ name" is a fact about the program that was handed to the minifier: the use may sit in an annotation
        # that another enabled option removes afterwards, so the caller passes the input's answer for the output side too
        self.keep_module_doc = uses_doc_name(tree) if self.doc_used is None else self.doc_used
        tree.body = self.stmts(tree.body, tree, None)
        return tree

    def stmts(self, body, owner, cls):
        out = []
        for i, st in enumerate(body):
            out += self.stmt(st, owner, cls, i == 0)
        if isinstance(owner, FUNC) and self.o.get('remove_explicit_return_none'):
            # to a fixpoint: the erasure has to commute with one more application on the output
            while out and isinstance(out[-1], ast.Return) and out[-1].value is None:
                out.pop()
        return out

    def stmt(self, st, owner, cls, first):
        o = self.o
        if isinstance(st, ast.Pass) and o.get('remove_pass'):
            return []
        if isinstance(st, ast.Assert) and o.get('remove_asserts'):
            return []
        if isinstance(st, ast.If) and o.get('remove_debug') and is_debug_test(st.test):
            # what -O runs: the else branch
            return self.stmts(st.orelse, owner, cls) if st.orelse else []
        if isinstance(st, ast.Expr) and o.get('constant_folding') and not isinstance(st.value, ast.Constant):
            # folding runs after literal-statement removal in the pipeline; erasing must not depend on that order
            st.value = self.expr(st.value)
        if is_literal_stmt(st):
            if self.placeholder and type(st.value.value) is int and st.value.value == 0:
                return []
            if o.get('remove_literal_statements'):
                if isinstance(owner, ast.Module) and first and isinstance(st.value.value, str) and self.keep_module_doc:
                    return [st]
                return []
            return [st]
        if isinstance(st, ast.Import) and o.get('combine_imports'):
            return [ast.Import(names=[a]) for a in st.names]
        if isinstance(st, ast.ImportFrom) and o.get('combine_imports') and not (len(st.names) == 1 and st.names[0].name == '*'):
            return [ast.ImportFrom(module=st.module, names=[a], level=st.level) for a in st.names]
        if isinstance(st, ast.Return):
            if o.get('remove_explicit_return_none') and isinstance(st.value, ast.Constant) and st.value.value is None:
                st.value = None
            elif st.value is not None:
                st.value = self.expr(st.value)
            return [st]
        if isinstance(st, ast.Raise) and o.get('remove_builtin_exception_brackets'):
            st.exc = self.unbracket(st.exc)
            st.cause = self.unbracket(st.cause)
        if isinstance(st, ast.AnnAssign):
            in_class = cls is not None
            sensitive = in_class and class_is_sensitive(cls)
            enabled = o.get('remove_class_attribute_annotations') if in_class else o.get('remove_variable_annotations')
            if enabled and not sensitive:
                if st.value is not None:
                    return [self.generic(ast.Assign(targets=[st.target], value=st.value, lineno=1), owner, cls)]
                st.annotation = ast.Constant(value=0)
                return [self.generic(st, owner, cls)]
        if isinstance(st, FUNC):
            if o.get('remove_argument_annotations'):
                a = st.args
                for x in getattr(a, 'posonlyargs', []) + a.args + a.kwonlyargs + [a.vararg, a.kwarg]:
                    if x is not None:
                        x.annotation = None
            if o.get('remove_return_annotations'):
                st.returns = None
            if o.get('convert_posargs_to_args') and getattr(st.args, 'posonlyargs', None) and st.args.kwarg is None:
                st.args.args = st.args.posonlyargs + st.args.args
                st.args.posonlyargs = []
            self.exprs_of(st)
            st.body = self.stmts(st.body, st, None)
            return [st]
        if isinstance(st, ast.ClassDef):
            if o.get('remove_object_base'):
                st.bases = [b for b in st.bases if not (isinstance(b, ast.Name) and b.id == 'object')]
            self.exprs_of(st)
            st.body = self.stmts(st.body, st, st)
            return [st]
        return [self.generic(st, owner, cls)]

    def generic(self, st, owner, cls):
        """Canonicalise nested statement lists and expressions of a compound/simple statement."""
        for f in st._fields:
            v = getattr(st, f, None)
            if isinstance(v, list) and v and isinstance(v[0], ast.stmt):
                setattr(st, f, self.stmts(v, st if isinstance(st, (ast.Module,) + FUNC) else self.neutral(owner), cls))
            elif isinstance(v, list):
                new = []
                for x in v:
                    if isinstance(x, ast.ExceptHandler):
                        x.body = self.stmts(x.body, self.neutral(owner), cls)
                        if x.type is not None:
                            x.type = self.expr(x.type)
                        new.append(x)
                    elif isinstance(x, getattr(ast, 'match_case', ())):
                        x.body = self.stmts(x.body, self.neutral(owner), cls)
                        if x.guard is not None:
                            x.guard = self.expr(x.guard)
                        new.append(x)
                    elif isinstance(x, ast.expr):
                        new.append(self.expr(x))
                    elif isinstance(x, ast.withitem):
                        x.context_expr = self.expr(x.context_expr)
                        if x.optional_vars is not None:
                            x.optional_vars = self.expr(x.optional_vars)
                        new.append(x)
                    else:
                        new.append(x)
                setattr(st, f, new)
            elif isinstance(v, ast.expr):
                setattr(st, f, self.expr(v))
        return st

    def neutral(self, owner):
        # statements nested in a compound statement are not "last statement of the def" nor "first statement of the module"
        return None

    def exprs_of(self, node):
        for f in node._fields:
            if f == 'body':
                continue
            v = getattr(node, f, None)
            if isinstance(v, list):
                setattr(node, f, [self.expr(x) if isinstance(x, ast.expr) else self.sub(x) for x in v])
            elif isinstance(v, ast.expr):
                setattr(node, f, self.expr(v))
            elif isinstance(v, ast.AST):
                self.sub(v)

    def sub(self, node):
        if isinstance(node, ast.AST):
            for f in node._fields:
                v = getattr(node, f, None)
                if isinstance(v, list):
                    setattr(node, f, [self.expr(x) if isinstance(x, ast.expr) else self.sub(x) for x in v])
                elif isinstance(v, ast.expr):
                    setattr(node, f, self.expr(v))
                elif isinstance(v, ast.AST):
                    self.sub(v)
        return node

    def unbracket(self, e):
        if isinstance(e, ast.Call) and isinstance(e.func, ast.Name) and not e.args and not e.keywords and \
                e.func.id in BUILTIN_EXCEPTIONS and id(e.func) in self.unbound_names:
            return e.func
        return e

    def expr(self, e):
        """Expressions: lambdas with positional-only parameters and literal arithmetic."""
        for n in ast.walk(e):
            if isinstance(n, ast.Lambda) and self.o.get('convert_posargs_to_args') and getattr(n.args, 'posonlyargs', None) and n.args.kwarg is None:
                n.args.args = n.args.posonlyargs + n.args.args
                n.args.posonlyargs = []
        if self.o.get('constant_folding'):
            e = Folder().visit(e)
        return e


class Folder(ast.NodeTransformer):
    """Bottom-up evaluation of BinOps over numeric/boolean constants; negatives in USub(Constant) normal form; anything
    that raises, is NaN, complex-with-real-part, or too big is left alone. Applied to both sides, so partial folding by the
    implementation is tolerated as long as the fully folded forms agree."""

    def visit_BinOp(self, node):
        self.generic_visit(node)
        l, r = self.value(node.left), self.value(node.right)
        if l is None or r is None:
            return node
        try:
            if isinstance(node.op, ast.Pow) and (abs(r[0]) > 64 if isinstance(r[0], int) else False):
                return node
            if isinstance(node.op, ast.LShift) and isinstance(r[0], int) and r[0] > 4096:
                return node
            v = eval(compile(ast.fix_missing_locations(ast.Expression(body=ast.BinOp(left=self.lit(l[0]), op=node.op, right=self.lit(r[0])))), '<canon>', 'eval'), {'__builtins__': {}}, {})
        except BaseException:
            return node
        if isinstance(v, bool) or not isinstance(v, (int, float, complex)):
            if isinstance(v, bool):
                return ast.copy_location(ast.Constant(value=v), node)
            return node
        if v != v:
            return node
        if isinstance(v, complex) and (v.real != 0 or str(v.real).startswith('-')):
            return node
        if isinstance(v, int) and v.bit_length() > 20000:
            return node
        return ast.copy_location(self.lit(v), node)

    def lit(self, v):
        neg = (isinstance(v, (int, float)) and not isinstance(v, bool) and (v < 0 or (isinstance(v, float) and str(v).startswith('-')))) or \
            (isinstance(v, complex) and str(v.imag).startswith('-'))
        if neg:
            return ast.UnaryOp(op=ast.USub(), operand=ast.Constant(value=-v))
        return ast.Constant(value=v)

    def value(self, n):
        if isinstance(n, ast.Constant) and isinstance(n.value, (int, float, complex, bool)):
            return (n.value,)
        if isinstance(n, ast.UnaryOp) and isinstance(n.op, ast.USub) and isinstance(n.operand, ast.Constant) and \
                isinstance(n.operand.value, (int, float, complex)) and not isinstance(n.operand.value, bool):
            return (-n.operand.value,)
        return None


def canon(tree, opts, doc_used=None):
    tree = copy.deepcopy(tree)
    res = scopes.Resolver(tree)
    unbound = set()
    for s in res.scopes:
        for (node, slot, name, ctx) in s.occ:
            if ctx == 'load' and res.keys[(id(node), slot)] == [('U', name)]:
                unbound.add(id(node))
    return Canon(opts, unbound, doc_used).run(tree)
