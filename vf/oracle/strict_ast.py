"""Strict AST comparison. Shares no code with python_minifier.ast_compare.

Valid on Python 2.7 and 3.6+ (imported by the multi-interpreter worker).

Two trees are equal iff node classes are identical and all _fields agree recursively, lists
element-wise. Leaf constants are equal iff type(a) is type(b) and: float/complex by repr
(separates 0.0 / -0.0, handles inf and nan), everything else by ==.
Ignored: position attributes (not in _fields), Constant.kind (the u prefix is spelling),
type_comment, type_ignores.
"""
import ast

IGNORED_FIELDS = {'kind', 'type_comment', 'type_ignores'}


def diff(a, b, path='root'):
    """Return None when equal, else a short string describing the first difference."""
    if isinstance(a, ast.AST) or isinstance(b, ast.AST):
        if type(a) is not type(b):
            return '%s: node %s != %s' % (path, type(a).__name__, type(b).__name__)
        for f in a._fields:
            if f in IGNORED_FIELDS:
                continue
            d = diff(getattr(a, f, None), getattr(b, f, None), path + '.' + f)
            if d:
                return d
        return None
    if isinstance(a, list) or isinstance(b, list):
        if not (isinstance(a, list) and isinstance(b, list)):
            return '%s: list vs %s' % (path, type(b).__name__)
        if len(a) != len(b):
            return '%s: length %d != %d' % (path, len(a), len(b))
        for i in range(len(a)):
            d = diff(a[i], b[i], '%s[%d]' % (path, i))
            if d:
                return d
        return None
    return const_diff(a, b, path)


def const_diff(a, b, path='const'):
    if type(a) is not type(b):
        return '%s: constant type %s != %s (%.40r vs %.40r)' % (path, type(a).__name__, type(b).__name__, a, b)
    if isinstance(a, (float, complex)):
        if repr(a) != repr(b):
            return '%s: %r != %r' % (path, a, b)
        return None
    if isinstance(a, (tuple, frozenset)):
        # only from constant-folded trees built by hand; compare element-wise
        if len(a) != len(b):
            return '%s: length' % path
        if isinstance(a, tuple):
            for i, (x, y) in enumerate(zip(a, b)):
                d = const_diff(x, y, '%s[%d]' % (path, i))
                if d:
                    return d
            return None
    if a != b:
        return '%s: %.60r != %.60r' % (path, a, b)
    return None


def equal(a, b):
    return diff(a, b) is None


def count_nodes(tree):
    n = 0
    for _ in ast.walk(tree):
        n += 1
    return n
