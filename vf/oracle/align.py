"""Lock-step alignment of a baseline tree B and a minified tree R, alias inlining, and alpha-equivalence.

B is parse(P) in pure configurations, otherwise parse(minify(P, O with rename/hoist off)). R = parse(minify(P, O)).
R may contain, at index p (after leading docstring/string statements and __future__ imports) of a module or
function body, extra statements `Name = Constant` (hoisted literal) or `Name = Name` (parameter re-binding; builtin alias).
Everything else must be structurally identical up to identifier spelling at binding-related positions and
Constant (B) vs Name (R) at hoisted uses.

stdlib only, valid on Python 3.8+.
"""
import ast
import copy

from vf.oracle import scopes, strict_ast

FUNC = (ast.FunctionDef, ast.AsyncFunctionDef)
BUILTIN_NAMES = frozenset(dir(__import__('builtins')))

ID_FIELDS = {
    'Name': ('id', 'bind'), 'FunctionDef': ('name', 'bind'), 'AsyncFunctionDef': ('name', 'bind'), 'ClassDef': ('name', 'bind'),
    'arg': ('arg', 'bind'), 'ExceptHandler': ('name', 'bind'), 'MatchAs': ('name', 'bind'), 'MatchStar': ('name', 'bind'),
    'MatchMapping': ('rest', 'bind'), 'TypeVar': ('name', 'bind'), 'TypeVarTuple': ('name', 'bind'), 'ParamSpec': ('name', 'bind'),
    'Attribute': ('attr', 'attr'), 'keyword': ('arg', 'keyword'),
}
LIST_ID_FIELDS = {'Global': ('names', 'bind'), 'Nonlocal': ('names', 'bind'), 'MatchClass': ('kwd_attrs', 'kwd_attr')}


class AlignError(Exception):
    def __init__(self, signature, detail=None):
        Exception.__init__(self, str(signature))
        self.signature = signature
        self.detail = detail


class Pair(object):
    __slots__ = ('b', 'r', 'slot', 'bname', 'rname', 'role')

    def __init__(self, b, r, slot, bname, rname, role):
        self.b, self.r, self.slot, self.bname, self.rname, self.role = b, r, slot, bname, rname, role


def is_leading(st):
    return (isinstance(st, ast.ImportFrom) and st.module == '__future__') or \
        (isinstance(st, ast.Expr) and isinstance(st.value, ast.Constant) and isinstance(st.value.value, str))


class Alignment(object):
    def __init__(self, B, R, allow_extras=True, allow_replacements=None, name_aliases_only=False):
        self.pairs = []
        self.extras = []        # (container node in R, statement, index)
        self.replacements = []  # (Constant in B, Name in R)
        self.allow_extras = allow_extras
        self.allow_replacements = allow_extras if allow_replacements is None else allow_replacements
        self.name_aliases_only = name_aliases_only
        self.node(B, R, 'root')

    def body(self, b, r, container_r, path, may_have_extras):
        k = len(r) - len(b)
        if k < 0:
            raise AlignError(('structure', 'statements-missing', type(container_r).__name__), path)
        if k > 0 and not (may_have_extras and self.allow_extras):
            raise AlignError(('structure', 'extra-statements', type(container_r).__name__), path)
        p = 0
        if k > 0:
            while p < len(r) and is_leading(r[p]):
                p += 1
            # the same leading statements must be there in B
            if p > len(b):
                raise AlignError(('structure', 'leading-statements-differ'), path)
            for j in range(k):
                if p + j >= len(r):
                    raise AlignError(('structure', 'extra-statements-misplaced'), path)
                st = r[p + j]
                ok = isinstance(st, ast.Assign) and len(st.targets) == 1 and isinstance(st.targets[0], ast.Name) and \
                    isinstance(st.value, (ast.Name,) if self.name_aliases_only else (ast.Constant, ast.Name))
                if not ok:
                    raise AlignError(('structure', 'extra-statement-not-an-alias', type(st).__name__), path)
                self.extras.append((container_r, st, p + j))
        for i in range(len(b)):
            j = i if i < p else i + k
            self.node(b[i], r[j], '%s[%d]' % (path, i))

    def node(self, b, r, path):
        if isinstance(b, ast.Constant) and isinstance(r, ast.Name) and isinstance(r.ctx, ast.Load) and self.allow_replacements:
            self.replacements.append((b, r))
            return
        if type(b) is not type(r):
            raise AlignError(('structure', 'node-type', type(b).__name__, type(r).__name__), path)
        tn = type(b).__name__
        if isinstance(b, ast.alias):
            if b.name != r.name:
                self.pairs.append(Pair(b, r, 'name', b.name, r.name, 'import-name'))
            else:
                self.pairs.append(Pair(b, r, 'name', b.name, r.name, 'import-name'))
            if b.name != '*':
                if '.' in b.name and (b.asname is None) != (r.asname is None):
                    # `import a.b` binds the root package a, `import a.b as x` binds the submodule: not a renaming
                    raise AlignError(('structure', 'dotted-import-changes-what-it-binds'), '%s as %s -> as %s' % (b.name, b.asname, r.asname))
                bb = b.asname if b.asname is not None else b.name.split('.')[0]
                rb = r.asname if r.asname is not None else r.name.split('.')[0]
                self.pairs.append(Pair(b, r, 'bound', bb, rb, 'bind'))
            return
        if isinstance(b, ast.ImportFrom):
            self.pairs.append(Pair(b, r, 'module', (b.module, b.level), (r.module, r.level), 'import-module'))
        idf = ID_FIELDS.get(tn)
        lidf = LIST_ID_FIELDS.get(tn)
        for f in b._fields:
            if f in strict_ast.IGNORED_FIELDS:
                continue
            vb = getattr(b, f, None)
            vr = getattr(r, f, None)
            fp = path + '.' + f
            if idf and f == idf[0]:
                if (vb is None) != (vr is None):
                    raise AlignError(('structure', 'identifier-presence', tn), fp)
                if vb is not None:
                    self.pairs.append(Pair(b, r, f, vb, vr, idf[1]))
                continue
            if lidf and f == lidf[0]:
                if len(vb) != len(vr):
                    raise AlignError(('structure', 'identifier-list-length', tn), fp)
                for i in range(len(vb)):
                    self.pairs.append(Pair(b, r, (f, i), vb[i], vr[i], lidf[1]))
                continue
            if isinstance(b, ast.ImportFrom) and f in ('module', 'level'):
                continue
            if isinstance(vb, list) or isinstance(vr, list):
                if not (isinstance(vb, list) and isinstance(vr, list)):
                    raise AlignError(('structure', 'list-vs-scalar', tn, f), fp)
                if f == 'body' and isinstance(b, (ast.Module,) + FUNC):
                    self.body(vb, vr, r, fp, True)
                    continue
                if vb and isinstance(vb[0], ast.stmt) or vr and isinstance(vr[0], ast.stmt):
                    self.body(vb, vr, r, fp, False)
                    continue
                if len(vb) != len(vr):
                    raise AlignError(('structure', 'list-length', tn, f), fp)
                for i in range(len(vb)):
                    self.item(vb[i], vr[i], '%s[%d]' % (fp, i))
                continue
            self.item(vb, vr, fp)

    def item(self, vb, vr, fp):
        if isinstance(vb, ast.AST) or isinstance(vr, ast.AST):
            if vb is None or vr is None:
                raise AlignError(('structure', 'node-presence'), fp)
            self.node(vb, vr, fp)
        else:
            d = strict_ast.const_diff(vb, vr, fp)
            if d:
                raise AlignError(('structure', 'constant-differs', type(vb).__name__), d)


class Replacer(ast.NodeTransformer):
    def __init__(self, mapping):
        self.mapping = mapping

    def generic_visit(self, node):
        for field, old in ast.iter_fields(node):
            if isinstance(old, list):
                new = []
                for v in old:
                    if isinstance(v, ast.AST):
                        v = self.visit(v)
                        if v is None:
                            continue
                    new.append(v)
                old[:] = new
            elif isinstance(old, ast.AST):
                setattr(node, field, self.visit(old))
        return node

    def visit(self, node):
        if id(node) in self.mapping:
            return self.mapping[id(node)]
        return self.generic_visit(node)


def inline_aliases(R, al):
    """Constant aliases (hoisted literals) are validated strictly and inlined by tree surgery; Name aliases (parameter
    re-binding `A = a`, builtin alias `A = len`) are validated and kept: they become equivalences between bindings.

    Returns (R', records, resolver of R')."""
    res = scopes.Resolver(R)
    records = []
    mapping = {}
    by_key = {}
    for s in res.scopes:
        for (node, slot, name, ctx) in s.occ:
            for k in res.keys[(id(node), slot)]:
                by_key.setdefault(k, []).append((node, slot, name, ctx, s))
    for (container, st, index) in al.extras:
        tgt = st.targets[0]
        keys = res.key_of(tgt, 'id')
        if not keys or len(keys) != 1:
            raise AlignError(('alias', 'target-ambiguous'), tgt.id)
        k = keys[0]
        occs = by_key.get(k, [])
        body = container.body
        p = 0
        while p < len(body) and is_leading(body[p]):
            p += 1
        rec = {'name': tgt.id, 'container': type(container).__name__, 'index': index, 'p': p, 'stmt': st, 'container_node': container,
               'scope_index': k[1] if k[0] == 'L' else None, 'key': k}
        if isinstance(st.value, ast.Constant):
            stores = [o for o in occs if o[3] in ('store', 'del', 'param')]
            decls = [o for o in occs if o[3] == 'decl']
            if len(stores) != 1 or stores[0][0] is not tgt:
                raise AlignError(('alias', 'hoisted-name-bound-more-than-once-or-deleted'), tgt.id)
            if decls:
                raise AlignError(('alias', 'hoisted-name-declared-global-or-nonlocal'), tgt.id)
            # a class body's fall-through read (name bound later in the class body) is not a use of the alias the minifier made:
            # it is left alone here and judged (or skipped, if the original raises NameError there) by binding_maps
            loads = [o for o in occs if o[3] == 'load' and (id(o[0]), o[1]) not in res.fallback_occ]
            rec['value'] = ('const', st.value.value)
            rec['uses'] = len(loads)
            for o in loads:
                if len(res.keys[(id(o[0]), o[1])]) != 1:
                    raise AlignError(('alias', 'hoisted-name-read-through-class-body-lookup'), tgt.id)
                mapping[id(o[0])] = ast.copy_location(ast.Constant(value=st.value.value), o[0])
            mapping[id(st)] = None
        else:
            vkeys = res.key_of(st.value, 'id')
            if not vkeys or len(vkeys) != 1:
                raise AlignError(('alias', 'aliased-name-ambiguous'), st.value.id)
            vk = vkeys[0]
            others = [o for o in by_key.get(vk, []) if o[0] is not st.value]
            if vk[0] == 'L':
                # parameter re-binding: the original name is only the parameter itself from now on
                if not (len(others) == 1 and others[0][3] == 'param' and vk[1] == k[1]):
                    raise AlignError(('alias', 'rebinding-of-something-that-is-not-an-otherwise-unused-parameter'), '%s = %s' % (tgt.id, st.value.id))
            else:
                if k[0] != 'L' or k[1] != 0:
                    raise AlignError(('alias', 'builtin-alias-not-at-module-level'), '%s = %s' % (tgt.id, st.value.id))
            rec['value'] = ('name', st.value.id)
            rec['value_key'] = vk
            rec['uses'] = len([o for o in occs if o[3] == 'load'])
        records.append(rec)
    R2 = Replacer(mapping).visit(R)
    ast.fix_missing_locations(R2)
    return R2, records, scopes.Resolver(R2)


class UnionFind(object):
    def __init__(self):
        self.parent = {}

    def find(self, x):
        while self.parent.get(x, x) != x:
            x = self.parent[x]
        return x

    def union(self, a, b):
        """b becomes the representative (the original name's binding)."""
        ra, rb = self.find(a), self.find(b)
        if ra != rb:
            self.parent[ra] = rb


def binding_maps(B, R2, resR=None):
    """Align B with R' (only Name aliases left as extra statements) and check that the identifier mapping is an
    isomorphism of bindings, modulo the equivalences the Name aliases introduce.
    Returns (alignment, resolver B, resolver R', forward map) or raises AlignError."""
    al = Alignment(B, R2, allow_extras=True, allow_replacements=False, name_aliases_only=True)
    resB = scopes.Resolver(B)
    resR = resR or scopes.Resolver(R2)
    uf = UnionFind()
    for (container, st, index) in al.extras:
        kt = resR.key_of(st.targets[0], 'id')
        kv = resR.key_of(st.value, 'id')
        if not kt or not kv or len(kt) != 1 or len(kv) != 1:
            raise AlignError(('alias', 'ambiguous'), st.targets[0].id)
        uf.union(kt[0], kv[0])
    fwd = {}
    back = {}
    skipped = [0]
    for p in al.pairs:
        if p.role != 'bind':
            continue
        kb = resB.key_of(p.b, p.slot)
        kr = resR.key_of(p.r, p.slot)
        if kb is None or kr is None:
            raise AlignError(('resolver', 'occurrence-not-resolved', type(p.b).__name__), p.bname)
        kr = [uf.find(y) for y in kr]
        if (id(p.b), p.slot) in resB.fallback_occ and kb[0][0] == 'U' and kb[0][1] not in BUILTIN_NAMES:
            # a class body reads a name it binds only later, and neither the module nor builtins provide it: the original
            # raises NameError at this point. What the read finds after minification is not asserted (counted).
            skipped[0] += 1
            continue
        if len(kb) != len(kr):
            raise AlignError(('binding', 'class-body-lookup-changed', len(kb), len(kr)), '%s -> %s' % (p.bname, p.rname))
        for x, y in zip(kb, kr):
            if x[0] != y[0]:
                raise AlignError(('binding', 'bound-vs-unbound', x[0], y[0]), '%s -> %s' % (p.bname, p.rname))
            if x[0] == 'U':
                if x[1] != y[1]:
                    raise AlignError(('binding', 'free-or-builtin-reference-renamed'), '%s -> %s' % (p.bname, p.rname))
                continue
            if x[1] != y[1]:
                raise AlignError(('binding', 'resolves-to-a-different-scope'), '%s@%d -> %s@%d' % (x[2], x[1], y[2], y[1]))
            if fwd.setdefault(x, y) != y:
                raise AlignError(('binding', 'one-binding-split-in-two'), '%s -> %s / %s' % (x[2], fwd[x][2], y[2]))
            if back.setdefault(y, x) != x:
                raise AlignError(('binding', 'two-bindings-merged'), '%s, %s -> %s' % (back[y][2], x[2], y[2]))
    # report the spelling actually used for a binding in R (not the representative)
    spell = {}
    for p in al.pairs:
        if p.role == 'bind':
            kb = resB.key_of(p.b, p.slot)
            if kb and len(kb) == 1 and kb[0][0] == 'L':
                spell.setdefault(kb[0], set()).add(p.rname)
    return al, resB, resR, fwd, spell
