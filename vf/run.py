"""Entry point:  python -m vf.run <ID> [--tier quick|thorough] [--replay PATH]"""
import argparse
import os
import sys
import traceback


def main():
    ap = argparse.ArgumentParser()
    ap.add_argument('check')
    ap.add_argument('--tier', default=os.environ.get('VERIF_TIER', 'quick'), choices=['quick', 'thorough'])
    ap.add_argument('--replay', default=None)
    a = ap.parse_args()
    seed = int(os.environ.get('VERIF_SEED', '1') or '1')
    os.environ.setdefault('PYTHONHASHSEED', '0')
    from vf import runner
    try:
        rc = runner.run_check(a.check.upper(), a.tier, seed, replay=a.replay)
    except SystemExit:
        raise
    except BaseException:
        sys.stderr.write('HARNESS ERROR:\n' + traceback.format_exc())
        rc = 2
    sys.stdout.flush()
    sys.exit(rc)


if __name__ == '__main__':
    main()
