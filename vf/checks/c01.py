"""C01 - the minified module behaves exactly like the original (safe options)."""
from hypothesis import strategies as st

from .. import api
from ..gen import apidrive, runnable
from ..oracle import observe
from ..runner import hyp_run, sha

ID = 'C01'
LEVEL = 'exploration'
RULE = ('Runnable, terminating, deterministic programs from vf.gen.runnable (kind-tracking generator: stdlib imports in all spellings, literal '
        'pools with repeats, literal arithmetic, functions with every parameter kind called positionally, by keyword and through **{...}, '
        'closures with nonlocal, global writers, classes with methods/static/class methods/properties/__slots__, dataclasses, NamedTuples, '
        'user exceptions, lambdas, comprehensions, try/except/else/finally raising builtin exceptions with and without brackets, with-statements '
        'over a generated context manager, assert, del, walrus, star unpacking, match, f-strings, docstrings printed through __doc__, value-less '
        'annotated locals read before assignment, explicit return None; a chaos knob produces unbound/ill-typed uses) x 3 option sets per program '
        'drawn from the subsets of the 13 default-on switches (40% all on, singletons, uniform subsets). Oracle: observe(P) == observe(minify(P,O)) '
        'where observe = (stdout, terminating exception as nearest builtin class or exit status, description of the public namespace). '
        'Additionally the public API of 16 real single-file stdlib modules (textwrap, heapq, colorsys, base64, shlex, fnmatch, difflib, string, '
        'graphlib, posixpath, fractions, pprint, random, ipaddress, urllib.parse, calendar) is driven with generated arguments on the original and on the '
        'minified module (default options; more option sets in the thorough tier) and results / exception classes must agree. '
        'Non-trivial: the original printed something or left a public namespace, and minify(P,O) differs from the all-off printing of P. '
        'Distinct = sha256(source, option set).')
RULE += ' Also generated: class attributes and methods spelled like variables/functions of the enclosing scope that methods read by the bare name, float and complex literals shown with repr and used in type-sensitive operations, string statements behind removable statements.'
ASSUMPTIONS = ['both runs happen in-process in fresh namespaces under a 2 s timer; a timeout is inconclusive, never a violation',
               'programs avoid the documented reflective views (names of locals, annotations, line numbers, reprs of functions/classes)']

SAFE = api.SAFE


@st.composite
def safe_option_sets(draw):
    r = draw(st.integers(0, 9))
    o = dict(api.ALL_OFF)
    if r < 4:
        for k in SAFE:
            o[k] = True
    elif r < 5:
        o[draw(st.sampled_from(SAFE))] = True
    elif r < 6:
        for k in SAFE:
            o[k] = True
        o[draw(st.sampled_from(SAFE))] = False
    else:
        bits = draw(st.integers(0, 2 ** len(SAFE) - 1))
        for i, k in enumerate(SAFE):
            o[k] = bool(bits >> i & 1)
    return o


def oracle(case):
    src = case['source']
    opts = case['opts']
    a = observe.observe(src)
    if a is None:
        return None
    try:
        out = api.minify(src, opts)
    except BaseException as e:
        try:
            api.minify(src, api.ALL_OFF)
        except BaseException:
            return None  # not evaluable: C08's bucket
        return ('minify-raises-only-with-options', type(e).__name__, api.innermost_frame(e)), str(e)[:200]
    b = observe.observe(out)
    if b is None:
        # the original finished within the bound; give the output five times that before calling it non-termination
        b = observe.observe(out, timeout=10.0)
    if b is None:
        return ('minified-program-does-not-terminate',), {'out': out[:600]}
    if a != b:
        which = 'stdout' if a[0] != b[0] else ('ending' if a[1] != b[1] else 'namespace')
        detail = (a[1], b[1]) if which == 'ending' else None
        return ('behaviour-differs', which) + ((detail,) if detail else ()), {'original': [a[0][-400:], a[1], a[2][:10]], 'minified': [b[0][-400:], b[1], b[2][:10]], 'out': out[:1200]}
    return None


def oracle_api(case):
    """API differential on a real stdlib module: case = module, opts, plan."""
    strat, driver = apidrive.DRIVERS[case['module']]
    src = apidrive.load(case['module'])
    try:
        out = api.minify(src, case['opts'])
    except BaseException:
        return None
    a = apidrive.exec_module(src, 'verif_orig')
    try:
        b = apidrive.exec_module(out, 'verif_orig')
    except BaseException as e:
        return ('api-differential', case['module'], 'minified-module-does-not-import', type(e).__name__), str(e)[:200]
    ra = driver(a, case['plan'])
    rb = driver(b, case['plan'])
    if ra != rb:
        i = [k for k in range(len(ra)) if ra[k] != rb[k]][0]
        return ('api-differential', case['module'], 'call-%d' % i), {'original': ra[i][:300], 'minified': rb[i][:300], 'plan': repr(case['plan'])[:300]}
    return None


def replay(case):
    if 'module' in case:
        case = dict(case)
        if isinstance(case.get('plan'), list):
            case['plan'] = _tuplify(case['plan'])
        return oracle_api(case)
    return oracle(case)


def _tuplify(x):
    if isinstance(x, list):
        return tuple(_tuplify(v) for v in x)
    return x


def shard(ctx):
    def prop(case):
        prog, optlist = case
        base = None
        for opts in optlist:
            c = {'source': prog.source, 'opts': opts}
            r = oracle(c)
            a = observe.observe(prog.source)
            if a is None:
                ctx.note('timeout_inconclusive')
                ctx.evaluations += 1
                continue
            try:
                if base is None:
                    base = api.minify(prog.source, api.ALL_OFF)
                changed = api.minify(prog.source, opts) != base
            except BaseException:
                changed = False
            nt = (bool(a[0]) or bool(a[2])) and changed
            classes = ['ending:' + a[1]] + ['f:' + f for f in prog.features]
            ctx.case(sha(prog.source, api.opts_key(opts)), nt, classes=classes,
                     sample={'source': prog.source[:500], 'options_on': api.on_list(opts), 'stdout': a[0][:120], 'ending': a[1]})
            if r is not None:
                ctx.fail(c, r[0], r[1])

    strat = st.tuples(runnable.runnable_programs(), st.lists(safe_option_sets(), min_size=3, max_size=3))
    hyp_run(ctx, 'grun', strat, prop, ctx.n(2400, 60000))

    # API differential on real single-file stdlib modules: each shard takes its share of the modules
    names = sorted(apidrive.DRIVERS)
    mine = [n for i, n in enumerate(names) if i % ctx.nshards == ctx.index]
    for name in mine:
        try:
            src = apidrive.load(name)
            apidrive.exec_module(src, 'verif_orig')
        except BaseException as e:
            ctx.note('api_module_not_loadable:%s:%s' % (name, type(e).__name__))
            continue
        strat_plan, driver = apidrive.DRIVERS[name]
        optsets = [dict(api.DEFAULTS)] + ([] if ctx.tier == 'quick' else [dict(api.ALL_OFF, rename_locals=True, hoist_literals=True), dict(api.DEFAULTS, hoist_literals=False), dict(api.DEFAULTS, rename_locals=False)])
        for opts in optsets:
            try:
                out = api.minify(src, opts)
                mod_b = apidrive.exec_module(out, 'verif_orig')
            except BaseException as e:
                ctx.fail_direct({'module': name, 'opts': opts, 'plan': None}, ('api-differential', name, 'minify-or-import-fails', type(e).__name__), str(e)[:200])
                continue
            mod_a = apidrive.exec_module(src, 'verif_orig')

            def prop_api(plan, name=name, opts=opts, mod_a=mod_a, mod_b=mod_b, driver=driver):
                ra = driver(mod_a, plan)
                rb = driver(mod_b, plan)
                ctx.case(sha('api', name, api.opts_key(opts), repr(plan)), True, classes=['api:' + name], sample={'module': name, 'plan': repr(plan)[:200], 'first_result': ra[0][:100] if ra else None})
                if ra != rb:
                    i = [k for k in range(len(ra)) if ra[k] != rb[k]][0]
                    ctx.fail({'module': name, 'opts': opts, 'plan': plan}, ('api-differential', name, 'call-%d' % i), {'original': ra[i][:300], 'minified': rb[i][:300]})

            hyp_run(ctx, 'api-' + name, strat_plan, prop_api, max(20, ctx.n(3200, 160000) // max(1, len(optsets))))
