"""C01 - the minified module behaves exactly like the original (safe options)."""
from hypothesis import strategies as st

from .. import api
from ..gen import runnable
from ..oracle import observe
from ..runner import hyp_run, sha

ID = 'C01'
LEVEL = 'exploration'
RULE = ('Runnable, terminating, deterministic programs from vf.gen.runnable (kind-tracking generator: stdlib imports in all spellings, literal '
        'pools with repeats, literal arithmetic, functions with every parameter kind called positionally, by keyword and through **{...}, '
        'closures with nonlocal, global writers, classes with methods/static/class methods/properties/__slots__, dataclasses, NamedTuples, '
        'user exceptions, lambdas, comprehensions, try/except/else/finally raising builtin exceptions with and without brackets, with-statements '
        'over a generated context manager, assert, del, walrus, star unpacking, match, f-strings, docstrings printed through __doc__, value-less '
        'annotated locals read before assignment, explicit return None; a chaos knob produces unbound/ill-typed uses) x 3 option sets per program '
        'drawn from the subsets of the 13 default-on switches (40% all on, singletons, uniform subsets). Oracle: observe(P) == observe(minify(P,O)) '
        'where observe = (stdout, terminating exception as nearest builtin class or exit status, description of the public namespace). '
        'Non-trivial: the original printed something or left a public namespace, and minify(P,O) differs from the all-off printing of P. '
        'Distinct = sha256(source, option set).')
ASSUMPTIONS = ['both runs happen in-process in fresh namespaces under a 2 s timer; a timeout is inconclusive, never a violation',
               'programs avoid the documented reflective views (names of locals, annotations, line numbers, reprs of functions/classes)']

SAFE = api.SAFE


@st.composite
def safe_option_sets(draw):
    r = draw(st.integers(0, 9))
    o = dict(api.ALL_OFF)
    if r < 4:
        for k in SAFE:
            o[k] = True
    elif r < 5:
        o[draw(st.sampled_from(SAFE))] = True
    elif r < 6:
        for k in SAFE:
            o[k] = True
        o[draw(st.sampled_from(SAFE))] = False
    else:
        bits = draw(st.integers(0, 2 ** len(SAFE) - 1))
        for i, k in enumerate(SAFE):
            o[k] = bool(bits >> i & 1)
    return o


def oracle(case):
    src = case['source']
    opts = case['opts']
    a = observe.observe(src)
    if a is None:
        return None
    try:
        out = api.minify(src, opts)
    except BaseException as e:
        try:
            api.minify(src, api.ALL_OFF)
        except BaseException:
            return None  # not evaluable: C08's bucket
        return ('minify-raises-only-with-options', type(e).__name__, api.innermost_frame(e)), str(e)[:200]
    b = observe.observe(out)
    if b is None:
        return ('minified-program-does-not-terminate',), {'out': out[:600]}
    if a != b:
        which = 'stdout' if a[0] != b[0] else ('ending' if a[1] != b[1] else 'namespace')
        detail = (a[1], b[1]) if which == 'ending' else None
        return ('behaviour-differs', which) + ((detail,) if detail else ()), {'original': [a[0][-400:], a[1], a[2][:10]], 'minified': [b[0][-400:], b[1], b[2][:10]], 'out': out[:1200]}
    return None


def replay(case):
    return oracle(case)


def shard(ctx):
    def prop(case):
        prog, optlist = case
        base = None
        for opts in optlist:
            c = {'source': prog.source, 'opts': opts}
            r = oracle(c)
            a = observe.observe(prog.source)
            if a is None:
                ctx.note('timeout_inconclusive')
                ctx.evaluations += 1
                continue
            try:
                if base is None:
                    base = api.minify(prog.source, api.ALL_OFF)
                changed = api.minify(prog.source, opts) != base
            except BaseException:
                changed = False
            nt = (bool(a[0]) or bool(a[2])) and changed
            classes = ['ending:' + a[1]] + ['f:' + f for f in prog.features]
            ctx.case(sha(prog.source, api.opts_key(opts)), nt, classes=classes,
                     sample={'source': prog.source[:500], 'options_on': api.on_list(opts), 'stdout': a[0][:120], 'ending': a[1]})
            if r is not None:
                ctx.fail(c, r[0], r[1])

    strat = st.tuples(runnable.runnable_programs(), st.lists(safe_option_sets(), min_size=3, max_size=3))
    hyp_run(ctx, 'grun', strat, prop, ctx.n(2400, 60000))
