"""C11 - output depends only on source, options and interpreter version."""
import copy
import json
import os
import subprocess
import sys
import threading

from hypothesis import strategies as st
from hypothesis.stateful import RuleBasedStateMachine, invariant, rule

import python_minifier
from python_minifier.transforms.remove_annotations_options import RemoveAnnotationsOptions

from .. import REPO_SRC, VERIF_ROOT, api, fleet
from ..gen import progs
from ..runner import hyp_run, sha, state_machine_run

ID = 'C11'
LEVEL = 'exploration'
RULE = ('Three generated dimensions. (1) Histories: a rule-based state machine drives one long-lived interpreter with minify / awslambda / unparse '
        'calls over a pool of sources (with __all__, type parameters, globals/nonlocals, repeated literals, bytes input, sources that raise), '
        'reusing caller-owned objects between calls (the same preserve_locals/preserve_globals list objects, the same RemoveAnnotationsOptions '
        'instance, the implicit default options object); after every step the result must equal what a pristine process returns for the same '
        'argument values (fork server that never minifies in the parent) and every argument object must equal the deep copy taken before the call. '
        '(2) Hash seeds: generated programs rich in set-valued scope data (multi-name global/nonlocal statements, equal mention counts, __all__) are '
        'minified by workers started with different PYTHONHASHSEED values; outputs must be byte-identical. (3) Schedules: 2-3 threads each minify '
        'their own source under sys.settrace; at every python_minifier function call the thread consults a cooperative scheduler driven by a '
        'generated turn list, so interleavings are deterministic and shrinkable; each result must equal the sequential result. '
        'Non-trivial: history with >=3 calls of which >=2 share an argument object or follow a failing call; seed case whose program has a '
        'multi-name global/nonlocal statement or >=2 equally frequent bindings; schedule with >=5 forced switches while two threads are inside '
        'python_minifier. Distinct = sha256 of the history / (program, options) / (sources, schedule).')
RULE += ' The histories share one of three caller-owned RemoveAnnotationsOptions objects (incl. all-true) and the pool has sources with sensitive classes nested in each other; the schedule pool has constant tables that keep a thread inside the folder and the printers.'
ASSUMPTIONS = ['a process forked from a parent that imported python_minifier but never called it is "fresh"',
               'interleavings are owned at python_minifier function-call granularity only', 'hash seeds are sampled (4 quick / 16 thorough)']

SOURCES = [
    "__all__ = ['public_name']\ndef public_name(argument_one, argument_two=None):\n    local_value = argument_one\n    return local_value\ndef other_function():\n    return public_name('text literal here', 'text literal here')\n",
    "import os\nimport sys\nvalue_one = 'repeated literal value'\nvalue_two = 'repeated literal value'\ndef handler(event, context):\n    global value_one, value_two\n    value_one, value_two = value_two, value_one\n    return value_one\n",
    "def outer_function():\n    first_local = 1\n    second_local = 2\n    third_local = 3\n    def inner_function():\n        nonlocal first_local, second_local, third_local\n        first_local, second_local, third_local = second_local, third_local, first_local\n        return first_local\n    return inner_function\n",
    "def generic_function[TypeName, OtherType](argument: TypeName, other: OtherType) -> TypeName:\n    keep_local = argument\n    return keep_local\nclass Container[ItemType]:\n    item: ItemType\n",
    "class Thing(object):\n    attribute_one: int = 1\n    def method_one(self, parameter_name):\n        '''docstring'''\n        if parameter_name:\n            raise ValueError()\n        return None\n    @classmethod\n    def method_two(cls):\n        pass\n",
    "keep_global = 10 * 10\nkeep_local = [keep_global for keep_global in range(keep_global)]\ndef function_name(keep_local, /, other_parameter):\n    assert keep_local\n    if __debug__:\n        print(other_parameter)\n    return {keep_local: other_parameter}\n",
    "#!/usr/bin/env python\n'''module doc'''\nfrom __future__ import annotations\nimport collections\nimport itertools\nx = b'bytes value' + b'bytes value' + b'bytes value'\ntry:\n    pass\nexcept Exception as error_name:\n    raise KeyError() from error_name\n",
    "alpha_name = beta_name = gamma_name = delta_name = 0\ndef use_them():\n    return alpha_name + beta_name + gamma_name + delta_name\ndef use_again():\n    return delta_name + gamma_name + beta_name + alpha_name\n",
    "def f(:\n    pass\n",
    "x = (1,\n",
    "lambda_handler = lambda event, context: {'statusCode': 200, 'body': 'ok', 'other': 'ok', 'third': 'ok'}\n",
    # exports names that OTHER sources of this pool use as ordinary renameable globals / locals: state leaking from one call
    # into the next (a cache of __all__ names, of preserved names, of hoisted values) shows in a later call on those sources
    "__all__ = ['handler', 'value_one', 'alpha_name', 'outer_function', 'Thing', 'use_them', 'other_function', 'function_name', 'first_local', 'keep_local']\n"
    "def handler(): pass\nvalue_one = alpha_name = 1\ndef outer_function(): pass\nclass Thing: pass\ndef use_them(): pass\ndef other_function(): pass\ndef function_name(first_local, keep_local): return first_local, keep_local\n",
    "def public_name(argument_one):\n    return argument_one, argument_one\ndef other_function(public_name_again):\n    return public_name(public_name_again), public_name(public_name_again)\nvalue_two = other_function(1)\nprint(value_two, value_two)\n",
    # annotation-rich: sensitive classes (dataclass / NamedTuple / TypedDict) nested in each other and next to plain classes
    "import dataclasses\nimport typing\n@dataclasses.dataclass\nclass OuterRecord:\n    outer_field: int = 1\n    @dataclasses.dataclass\n    class InnerRecord:\n        inner_field: int = 2\n"
    "        class DeepTuple(typing.NamedTuple):\n            deep_field: int\n    class PlainInside:\n        plain_attr: int = 3\n        bare_attr: str\n    other_field: str = 'text'\n"
    "class Config:\n    retries: int = 3\n    timeout: float\n    def method(self, argument_one: int = 0) -> int:\n        local_annotated: int = argument_one\n        return local_annotated\n",
    "import typing\nclass Row(typing.NamedTuple):\n    first_column: int\n    class Options(typing.TypedDict):\n        option_key: str\n    second_column: str = 'x'\n"
    "class After:\n    class_level: int = 0\n    unassigned: int\nmodule_level: int = 5\ndef function_name(parameter_one: int, *args: str, **kwargs: bytes) -> None:\n    inner_value: int = parameter_one\n    return None\n",
]
BYTES_SOURCES = [b"# -*- coding: latin-1 -*-\nname_value = '\xe9\xe8'\nprint(name_value, name_value)\n", SOURCES[0].encode(), SOURCES[6].encode()]

_ref = {'proc': None, 'cache': {}}


def ref_call(req):
    key = json.dumps(req, sort_keys=True)
    if key in _ref['cache']:
        return _ref['cache'][key]
    p = _ref['proc']
    if p is None or p.poll() is not None:
        env = dict(os.environ)
        env['PYTHONPATH'] = REPO_SRC + os.pathsep + VERIF_ROOT
        env['PYTHONHASHSEED'] = '0'
        env.pop('PYMINIFY_FORCE_BEST_EFFORT', None)
        p = subprocess.Popen([sys.executable, '-u', os.path.join(VERIF_ROOT, 'vf', 'worker', 'refserver.py')], stdin=subprocess.PIPE,
                             stdout=subprocess.PIPE, stderr=subprocess.DEVNULL, env=env)
        _ref['proc'] = p
    p.stdin.write((json.dumps(req) + '\n').encode())
    p.stdin.flush()
    line = p.stdout.readline()
    rep = json.loads(line.decode())
    _ref['cache'][key] = rep
    return rep


def src_req(src):
    if isinstance(src, bytes):
        return {'src_hex': src.hex()}
    return {'src': src}


def outcome(fn):
    try:
        return {'out': fn()}
    except BaseException as e:
        return {'exc': type(e).__name__}


_CTX = [None]
# the values the three shared option objects were created with (api.ANN order); the reference request uses these, not the live object
SHARED_RAO_VALUES = [(True, False, True, False), (True, True, True, True), (False, False, False, True)]


class State(object):
    """Caller-owned objects that live across the calls of one history."""

    def __init__(self):
        self.shared_pl = ['keep_local']
        self.shared_pg = ['keep_global']
        self.shared_raos = [RemoveAnnotationsOptions(remove_variable_annotations=True, remove_return_annotations=False,
                                                    remove_argument_annotations=True, remove_class_attribute_annotations=False),
                            RemoveAnnotationsOptions(remove_variable_annotations=True, remove_return_annotations=True,
                                                    remove_argument_annotations=True, remove_class_attribute_annotations=True),
                            RemoveAnnotationsOptions(remove_variable_annotations=False, remove_return_annotations=False,
                                                    remove_argument_annotations=False, remove_class_attribute_annotations=True)]


def exec_step(state, step):
    """Run one step against the long-lived interpreter. Returns (got, reference request, args before, args after, shared?)."""
    import ast
    rule_ = step['rule']
    i = step['i']
    src = SOURCES[i] if i >= 0 else step['source']
    if rule_ == 'minify':
        opts = step['opts']
        if step['use_bytes']:
            src = BYTES_SOURCES[i % len(BYTES_SOURCES)]
        pl_obj = state.shared_pl if step['share_pl'] else list(step['pl'])
        pg_obj = state.shared_pg if step['share_pg'] else list(step['pg'])
        kw = api.kwargs(opts)
        if step['share_rao']:
            # one of three caller-owned option objects (True in older replay files means the first)
            rao = state.shared_raos[(int(step['share_rao']) - 1) % len(state.shared_raos)]
            kw['remove_annotations'] = rao
            opts = dict(opts, **dict(zip(api.ANN, SHARED_RAO_VALUES[(int(step['share_rao']) - 1) % len(state.shared_raos)])))
        before = (copy.deepcopy(pl_obj), copy.deepcopy(pg_obj), rao_tuple(kw['remove_annotations']), src)
        got = outcome(lambda: python_minifier.minify(src, preserve_locals=pl_obj, preserve_globals=pg_obj, **kw))
        after = (pl_obj, pg_obj, rao_tuple(kw['remove_annotations']), src)
        req = dict(src_req(src), api='minify', opts=opts, pl=before[0], pg=before[1])
        return got, req, before, after, bool(step['share_pl'] or step['share_pg'] or step['share_rao'])
    if rule_ == 'defaults':
        return outcome(lambda: python_minifier.minify(src)), dict(src_req(src), api='defaults'), 0, 0, True
    if rule_ == 'awslambda':
        e = step['entry']
        return outcome(lambda: python_minifier.awslambda(src, entrypoint=e)), dict(src_req(src), api='awslambda', entrypoint=e), 0, 0, False
    if rule_ == 'unparse':
        return outcome(lambda: python_minifier.unparse(ast.parse(src))), dict(src_req(src), api='unparse'), 0, 0, False
    if rule_ == 'bool_annotations':
        r = step['remove']
        return (outcome(lambda: python_minifier.minify(src, remove_annotations=r)),
                dict(src_req(src), api='minify', opts=dict(api.DEFAULTS), remove_annotations_bool=r), 0, 0, False)
    raise ValueError(rule_)


def judge_step(step, got, req, before, after):
    want = ref_call(req)
    if got != want:
        return ('history-result-differs-from-fresh-process', step['rule']), {'got': str(got)[:300], 'fresh': str(want)[:300]}
    if before != after:
        return ('caller-argument-mutated', step['rule']), {'before': repr(before)[:300], 'after': repr(after)[:300]}
    return None


def replay_history(steps):
    state = State()
    for step in steps:
        got, req, before, after, shared = exec_step(state, step)
        r = judge_step(step, got, req, before, after)
        if r is not None:
            return r
    return None


def make_machine():
    class History(RuleBasedStateMachine):
        def __init__(self):
            super().__init__()
            self.state = State()
            self.steps = []
            self.shared_uses = 0
            self.after_failure = 0
            self.prev_failed = False

        def do(self, step):
            ctx = _CTX[0]
            if ctx.shrink_expired():
                return
            got, req, before, after, shared = exec_step(self.state, step)
            self.steps.append(step)
            if shared:
                self.shared_uses += 1
            if self.prev_failed:
                self.after_failure += 1
            self.prev_failed = 'exc' in got
            r = judge_step(step, got, req, before, after)
            if r is not None:
                ctx.fail({'history': list(self.steps)}, r[0], r[1])

        @rule(i=st.integers(0, len(SOURCES) - 1), opts=api.option_sets(), share_pl=st.booleans(), share_pg=st.booleans(),
              pl=st.lists(st.sampled_from(['first_local', 'argument_one', 'keep_local']), max_size=2),
              pg=st.lists(st.sampled_from(['value_one', 'other_function', 'keep_global', 'alpha_name']), max_size=2),
              share_rao=st.integers(0, 3), use_bytes=st.booleans())
        def call_minify(self, i, opts, share_pl, share_pg, pl, pg, share_rao, use_bytes):
            self.do({'rule': 'minify', 'i': i, 'opts': opts, 'share_pl': share_pl, 'share_pg': share_pg, 'pl': pl, 'pg': pg,
                     'share_rao': share_rao, 'use_bytes': use_bytes})

        @rule(prog=progs.programs(profile='shape', level=(3, 12), size=6), opts=api.option_sets(), exports=st.lists(st.sampled_from(progs.LONG_NAMES + ['A', 'B', 'x']), max_size=3),
              share_pg=st.booleans(), share_rao=st.integers(0, 3))
        def call_minify_generated(self, prog, opts, exports, share_pg, share_rao):
            # generated programs share one small name pool, so names remembered from an earlier call would bite in a later one
            src = prog.source
            if exports:
                src = '__all__ = %r\n' % (exports,) + src
                if api.compiles(src) is not None:
                    src = prog.source
            self.do({'rule': 'minify', 'i': -1, 'source': src, 'opts': opts, 'share_pl': False, 'share_pg': share_pg, 'pl': [], 'pg': [], 'share_rao': share_rao, 'use_bytes': False})

        @rule(i=st.integers(0, len(SOURCES) - 1))
        def call_defaults(self, i):
            self.do({'rule': 'defaults', 'i': i})

        @rule(i=st.integers(0, len(SOURCES) - 1), entry=st.sampled_from([None, 'handler', 'lambda_handler', 'public_name']))
        def call_awslambda(self, i, entry):
            self.do({'rule': 'awslambda', 'i': i, 'entry': entry})

        @rule(i=st.integers(0, len(SOURCES) - 1))
        def call_unparse(self, i):
            self.do({'rule': 'unparse', 'i': i})

        @rule(i=st.integers(0, len(SOURCES) - 1), remove=st.booleans())
        def call_bool_annotations(self, i, remove):
            self.do({'rule': 'bool_annotations', 'i': i, 'remove': remove})

        def teardown(self):
            ctx = _CTX[0]
            if ctx.shrink_expired():
                return
            nt = len(self.steps) >= 3 and (self.shared_uses >= 2 or self.after_failure >= 1)
            brief = ['%s src=%d%s' % (s['rule'], s['i'], ' shared' if (s.get('share_pl') or s.get('share_pg') or s.get('share_rao')) else '') for s in self.steps]
            ctx.case(sha(json.dumps(self.steps, sort_keys=True)), nt,
                     classes=['history', 'len:%02d' % min(len(self.steps), 12)] + (['shared-args'] if self.shared_uses >= 2 else []) + (['after-failure'] if self.after_failure else []),
                     sample={'history': brief[:10]})

    return History


def rao_tuple(r):
    return tuple(getattr(r, k) for k in api.ANN) if not isinstance(r, bool) else r


# ---------------------------------------------------------------------------------------------
# hash seeds

LONG = ['alpha_name', 'beta_name', 'gamma_name', 'delta_name', 'epsilon_name', 'zeta_name', 'eta_name', 'theta_name']


@st.composite
def set_sensitive_programs(draw):
    names = draw(st.permutations(LONG))
    k = draw(st.integers(2, 4))
    g = list(names[:k])
    n = list(names[k:k + draw(st.integers(2, 3))])
    lines = []
    if draw(st.booleans()):
        lines.append('__all__ = [%s]' % ', '.join(repr(x) for x in draw(st.permutations(g))[:2]))
    if draw(st.booleans()):
        lines.append('%s = 0' % ' = '.join(draw(st.permutations(g))[:draw(st.integers(1, k))]))
    lines.append('def writer_function():')
    lines.append('    global %s' % ', '.join(g))
    for x in g:
        lines.append('    %s = %d' % (x, draw(st.integers(0, 3))))
    lines.append('def closure_maker():')
    lines.append('    %s = 0' % ' = '.join(n))
    lines.append('    def inner_closure():')
    lines.append('        nonlocal %s' % ', '.join(draw(st.permutations(n))))
    lines.append('        %s = %s' % (', '.join(n), ', '.join(reversed(n))))
    lines.append('        return %s' % ' + '.join(n))
    lines.append('    return inner_closure')
    lines.append('def reader_function():')
    lines.append('    return %s' % ' + '.join(draw(st.permutations(g))))
    lines.append('class Holder:')
    for x in draw(st.permutations(g))[:2]:
        lines.append('    %s = %s' % (x, x))
    lines.append("print(%s, 'literal text one', 'literal text one', 'literal text two', 'literal text two')" % ', '.join(g))
    return '\n'.join(lines) + '\n'


def shard(ctx):
    _CTX[0] = ctx
    # (1) histories
    state_machine_run(ctx, 'history', make_machine(), ctx.n(400, 8000), 12)
    if _ref['proc'] is not None:
        _ref['proc'].kill()
        _ref['proc'] = None

    # (2) hash seeds
    nseeds = 4 if ctx.tier == 'quick' else 16
    seeds = [str((ctx.index * 7 + j * 13) % 1000) for j in range(nseeds)]
    seeds[0] = '0'
    workers = []
    try:
        workers = [fleet.Worker('3.12', hashseed=s) for s in seeds]

        def prop_seed(case):
            src, opts = case
            f = fleet.src_fields(src)
            if f is None:
                return
            outs = []
            for w in workers:
                req = {'op': 'out', 'opts': opts}
                req.update(f)
                rep = w.call(req)
                if 'harness_error' in rep or rep.get('timeout') or rep.get('worker_died'):
                    ctx.note('worker_problem')
                    return
                outs.append(rep.get('out', rep.get('exc')))
            multi = ('global ' in src and ',' in src.split('global ', 1)[1].split('\n')[0]) or 'nonlocal ' in src
            ctx.case(sha('seed', src, api.opts_key(opts)), bool(multi), classes=['hashseed'] + (['multi-name-global'] if multi else []),
                     sample={'source': src[:300], 'options_on': api.on_list(opts), 'seeds': seeds})
            if len(set(outs)) != 1:
                ctx.fail({'source': src, 'opts': opts, 'seeds': seeds}, ('output-depends-on-hash-seed',), {'distinct_outputs': len(set(outs)), 'a': outs[0][:300], 'b': [o for o in outs if o != outs[0]][0][:300]})

        strat = st.tuples(st.one_of(set_sensitive_programs(), progs.programs(profile='shape', level=(3, 12)).map(lambda p: p.source)),
                          api.option_sets())
        hyp_run(ctx, 'seeds', strat, prop_seed, ctx.n(1200, 30000))
    finally:
        for w in workers:
            w.kill()

    # (3) schedules
    run_schedules(ctx)


# ---------------------------------------------------------------------------------------------
# harness-owned schedules

class Scheduler(object):
    def __init__(self, nthreads, turns):
        self.cv = threading.Condition()
        self.turns = list(turns)   # [(thread index, quantum)]
        self.alive = [True] * nthreads
        self.inside = [False] * nthreads
        self.current = None
        self.remaining = 0
        self.switches = 0
        self.switches_both_inside = 0
        self.n = nthreads
        self._next_turn()

    def _next_turn(self):
        # called with cv held (or at construction)
        while self.turns:
            t, q = self.turns.pop(0)
            t = t % self.n
            if self.alive[t]:
                self._set(t, max(1, q))
                return
        for t in range(self.n):
            cand = ((self.current or 0) + 1 + t) % self.n
            if self.alive[cand]:
                self._set(cand, 3)
                return
        self.current = None

    def _set(self, t, q):
        if self.current is not None and t != self.current:
            self.switches += 1
            if sum(1 for x in self.inside if x) >= 2:
                self.switches_both_inside += 1
        self.current = t
        self.remaining = q

    def yield_point(self, me):
        with self.cv:
            self.inside[me] = True
            if self.current == me:
                self.remaining -= 1
                if self.remaining <= 0:
                    self._next_turn()
                    self.cv.notify_all()
            while self.current is not None and self.current != me and self.alive[me]:
                if not self.cv.wait(timeout=20):
                    # never deadlock the harness: give up ownership, let threads run free
                    self.current = None
                    self.cv.notify_all()
                    break

    def finish(self, me):
        with self.cv:
            self.alive[me] = False
            self.inside[me] = False
            if self.current == me or self.current is None:
                self._next_turn()
            self.cv.notify_all()


_stuck = [0]


def run_threads(sources_opts, turns):
    n = len(sources_opts)
    sched = Scheduler(n, turns)
    results = [None] * n

    def worker(i):
        def tracer(frame, event, arg):
            if event == 'call' and 'python_minifier' in frame.f_code.co_filename:
                sched.yield_point(i)
            return None
        sys.settrace(tracer)
        try:
            src, opts = sources_opts[i]
            sched.yield_point(i)
            results[i] = outcome(lambda: api.minify(src, opts))
        finally:
            sys.settrace(None)
            sched.finish(i)

    threads = [threading.Thread(target=worker, args=(i,), daemon=True) for i in range(n)]
    for t in threads:
        t.start()
    for t in threads:
        t.join(120)
    if any(t.is_alive() for t in threads):
        # never hang the harness on a system under test that does not return
        _stuck[0] += 1
        if _stuck[0] >= 2:
            raise RuntimeError('minify() did not return within 120 s inside scheduled threads (twice): giving up (harness error)')
        raise api.MinifyTimeout('threads did not finish')
    return results, sched


def oracle_schedule(case):
    so = [(s, o) for s, o in case['programs']]
    seq = [outcome(lambda s=s, o=o: api.minify(s, o)) for s, o in so]
    results, sched = run_threads(so, case['turns'])
    for i in range(len(so)):
        if results[i] != seq[i]:
            return ('concurrent-result-differs-from-sequential',), {'thread': i, 'sequential': str(seq[i])[:300], 'concurrent': str(results[i])[:300]}, sched
    return None, None, sched


def _constant_table(seed_value):
    """Modules that keep every thread inside the expression printers / folder / literal printers for a long time, with values that differ
    per module so that text written into another thread's buffer shows."""
    lines = []
    for k in range(14):
        a, b, c = seed_value * 7 + k, seed_value * 13 + 2 * k + 1, seed_value + 3 * k
        lines.append('TABLE_%d_%d = %d * %d + %d - (%d << 2)' % (seed_value, k, a, b, c, a))
        if k % 3 == 0:
            lines.append("TEXT_%d_%d = f'{TABLE_%d_%d!r:>{%d + %d}} %s' + 'text %d' * (%d + 1)" % (seed_value, k, seed_value, k, k, seed_value, 'x' * (k + 1), k * seed_value, k % 3))
        if k % 4 == 0:
            lines.append('HALF_%d_%d = %d * .5 + %d.25e%d - 0x%x' % (seed_value, k, 1000 * (seed_value + k), k, seed_value % 5, a * b))
    return '\n'.join(lines) + '\n'


def _many_names_source(n):
    """A function with n distinct renamable locals and a module with n renamable globals: needs more fresh names than any small module."""
    lines = ['def many_locals(first_argument):']
    for k in range(n):
        lines.append('    local_value_%d = first_argument + %d' % (k, k))
        lines.append('    first_argument = local_value_%d * 2' % k)
    lines.append('    return first_argument')
    for k in range(n):
        lines.append('global_value_%d = many_locals(%d)' % (k, k))
        lines.append('print(global_value_%d, global_value_%d)' % (k, k))
    return '\n'.join(lines) + '\n'


PROBES = [(_many_names_source(12), dict(api.DEFAULTS)), (_many_names_source(70), dict(api.DEFAULTS)), (_many_names_source(70), dict(api.DEFAULTS, rename_globals=True)),
          (_many_names_source(400), dict(api.DEFAULTS)), (_many_names_source(200), dict(api.DEFAULTS, rename_globals=True)),
          (SOURCES[0], dict(api.DEFAULTS, rename_globals=True)), (SOURCES[7], dict(api.DEFAULTS, rename_globals=True))]


def probe_process_state():
    """After concurrent calls in this process: results of plain sequential calls must still equal those of a pristine process."""
    for src, opts in PROBES:
        got = outcome(lambda: api.minify(src, opts))
        want = ref_call(dict(src_req(src), api='minify', opts=opts, pl=[], pg=[]))
        if got != want:
            return ('process-state-after-concurrent-calls-differs-from-fresh-process',), {'got': str(got)[:300], 'fresh': str(want)[:300]}
    return None


def canned_concurrency(rounds=5):
    """A fixed set of fine-grained interleavings of small modules (used by the replay of a probe failure)."""
    for r in range(rounds):
        # every round needs more fresh names than anything minified in this process before (process-wide name state grows under contention)
        progs_ = [(_many_names_source(130 + 40 * r), dict(api.DEFAULTS)), (_many_names_source(131 + 40 * r), dict(api.DEFAULTS)), (_constant_table(5), dict(api.DEFAULTS, rename_globals=True))]
        turns = [(i % 3, 1 + (i + r) % 3) for i in range(60)]
        try:
            run_threads(progs_, turns)
        except api.MinifyTimeout:
            pass


def run_schedules(ctx):
    pool = SOURCES[:8] + [_constant_table(v) for v in (1, 2, 3, 5)] * 2

    @st.composite
    def cases(draw):
        n = draw(st.integers(2, 3))
        programs = []
        for _ in range(n):
            k = draw(st.integers(0, 4))
            if k < 2:
                src = draw(st.sampled_from(pool))
            elif k == 2:
                # needs more distinct new names than small modules do
                src = _many_names_source(draw(st.integers(20, 120)))
            else:
                src = draw(progs.programs(profile='shape', level=(3, 12), size=8)).source
            programs.append((src, draw(api.option_sets())))
        turns = draw(st.lists(st.tuples(st.integers(0, n - 1), st.integers(1, 40)), min_size=3, max_size=60))
        return {'programs': programs, 'turns': turns}

    def prop(case):
        sig, obs, sched = oracle_schedule(case)
        ctx.case(sha('sched', case['programs'], case['turns']), sched.switches_both_inside >= 5, classes=['schedule', 'threads:%d' % len(case['programs'])],
                 sample={'threads': len(case['programs']), 'turns': case['turns'][:10], 'forced_switches': sched.switches, 'switches_with_two_threads_inside': sched.switches_both_inside})
        ctx.notes['forced_switches'] += sched.switches
        if sig is not None:
            ctx.fail({'programs': [list(p) for p in case['programs']], 'turns': [list(t) for t in case['turns']]}, sig, obs)

    hyp_run(ctx, 'schedules', cases(), prop, ctx.n(600, 12000))
    # the interleaved calls are over: what they left behind in the process must not show in later calls. A few canned rounds first, each
    # needing more fresh names in two racing threads than anything this process has minified before.
    canned_concurrency()
    r = probe_process_state()
    ctx.case(sha('probe-after-schedules', ctx.index), True, classes=['probe-after-concurrency'])
    if r is not None:
        ctx.fail_direct({'probe_after_concurrency': True}, r[0], r[1])


def replay(case):
    if case.get('probe_after_concurrency'):
        canned_concurrency()
        return probe_process_state()
    if 'turns' in case:
        sig, obs, _ = oracle_schedule({'programs': [tuple(p) for p in case['programs']], 'turns': [tuple(t) for t in case['turns']]})
        return (sig, obs) if sig else None
    if 'seeds' in case:
        outs = []
        for s in case['seeds']:
            w = fleet.Worker('3.12', hashseed=s)
            try:
                req = {'op': 'out', 'opts': case['opts']}
                req.update(fleet.src_fields(case['source']))
                rep = w.call(req)
                outs.append(rep.get('out', rep.get('exc')))
            finally:
                w.kill()
        if len(set(outs)) != 1:
            return ('output-depends-on-hash-seed',), {'distinct_outputs': len(set(outs))}
        return None
    if 'history' in case:
        return replay_history(case['history'])
    return None


