"""C03 - renaming preserves which binding every name refers to."""
from hypothesis import strategies as st

from .. import api, corpus, fleet
from ..gen import progs
from ..oracle import scopecheck
from ..runner import hyp_run, sha

ID = 'C03'
LEVEL = 'exploration'
RULE = ('Compilable scope-shape programs from vf.gen.progs (random nestings of module/def/async def/class/lambda/comprehension scopes with every '
        'binding form - assignment, augmented, annotated, for/with/except/import targets, def/class, all parameter kinds with defaults, walrus '
        'incl. inside comprehensions, match captures, del, global, nonlocal - over a small name pool mixing long names, builtins, dunders and '
        'names the minifier itself generates) x option sets with at least one of rename_locals / rename_globals / hoist_literals on; half of the '
        'cases pure (every other transform off, baseline = the input itself), half mixed (baseline = same options without the name-touching ones). '
        'Oracle: (1) compile(output) succeeds; (2) output aligns structurally with the baseline, extra statements only as alias assignments at the '
        'documented position; (3) every alias is bound once, never deleted/redeclared, and inlining it does not change what the inlined name '
        'resolves to; (4) with an independent scope resolver (validated against CPython symtable on every program, inside a 3.11 worker) the map '
        'binding(B occurrence) -> binding(R occurrence) is a function, injective, scope-preserving, and sends unbound names to the same unbound name; '
        'class-body LOAD_NAME lookups keep their shape. The whole oracle also runs inside a 3.11 worker (pre-PEP 709 scoping) for a share of cases. '
        'Non-trivial: a binding was renamed or an alias introduced, and the program has >= 2 nested scopes. Distinct = sha256(source, options, interpreter).')
ASSUMPTIONS = ['the resolver implements the language reference scoping rules; agreement with symtable is checked per program under 3.11',
               'programs with PEP 695 annotation scopes are checked for compile + structure only',
               'class-private name mangling (__x inside classes) is not generated']


@st.composite
def rename_option_sets(draw):
    o = dict(api.ALL_OFF)
    pure = draw(st.booleans())
    if not pure:
        o = draw(api.option_sets())
    bits = draw(st.integers(1, 7))
    o['rename_locals'] = bool(bits & 1)
    o['rename_globals'] = bool(bits & 2)
    o['hoist_literals'] = bool(bits & 4)
    return o


def _minify(src, opts, pl, pg):
    kw = {}
    if pl is not None:
        kw['preserve_locals'] = list(pl)
    if pg is not None:
        kw['preserve_globals'] = list(pg)
    return api.minify(src, opts, **kw)


def oracle(case):
    r = scopecheck.analyse(case['source'], case['opts'], _minify)
    if r['status'] == 'violation':
        return tuple(r['signature']), r['detail']
    return None


def replay(case):
    if case.get('interp'):
        return fleet.replay_on(case['interp'], {'op': 'scopes', 'src': case['source'], 'opts': case['opts']})
    return oracle(case)


def classes_of(prog, r):
    cl = ['f:' + f for f in prog.features]
    if r.get('renamed'):
        cl.append('renamed')
    if r.get('aliases'):
        cl.append('alias-introduced')
        for a in r['aliases']:
            cl.append('alias:%s:%s' % (a['container'], a['value'][0]))
    if r.get('pure'):
        cl.append('pure-config')
    return cl


def shard(ctx):
    def prop(case):
        prog, opts = case
        r = scopecheck.analyse(prog.source, opts, _minify)
        if r['status'] in ('domain', 'raises'):
            ctx.note('not_evaluable:' + r['status'] + ':' + r.get('exception', ''))
            ctx.evaluations += 1
            return
        if r['status'] == 'violation':
            ctx.case(sha(prog.source, api.opts_key(opts)), True, classes=['violating'])
            ctx.fail({'source': prog.source, 'opts': opts}, tuple(r['signature']), r['detail'])
            return
        nt = bool(r['renamed'] or r['aliases']) and r['n_scopes'] >= 3
        ctx.case(sha(prog.source, api.opts_key(opts)), nt, classes=classes_of(prog, r),
                 sample={'source': prog.source[:400], 'options_on': api.on_list(opts), 'renamed': r['renamed'][:6], 'aliases': r['aliases'][:3]})

    strat = st.tuples(st.one_of(progs.programs(profile='shape'), progs.programs(profile='shape', level=(3, 12)), progs.programs(profile='syntax')),
                      rename_option_sets())
    hyp_run(ctx, 'shape', strat, prop, ctx.n(4000, 200000))

    # corpus files (thorough only: real modules are big)
    if ctx.tier == 'thorough':
        files = corpus.shard_slice(corpus.files(groups=['stdlib312'], max_size=20000), ctx.index, ctx.nshards)
        for e in files:
            data = corpus.load(e)
            if data is None:
                continue
            for opts in (dict(api.DEFAULTS), dict(api.ALL_OFF, rename_locals=True, rename_globals=True, hoist_literals=True)):
                try:
                    src = data.decode('utf-8')
                except UnicodeDecodeError:
                    continue
                r = scopecheck.analyse(src, opts, _minify)
                if r['status'] == 'violation':
                    ctx.fail_direct({'source': src, 'opts': opts, 'file': e['path']}, tuple(r['signature']), r['detail'])
                elif r['status'] == 'ok':
                    ctx.case(sha(data, api.opts_key(opts)), True, classes=['corpus'], sample={'file': e['path'], 'renamed': len(r['renamed'])})

    # the same oracle inside other interpreters (pre-PEP 709 scoping; version-specific binding code of the minifier), with the
    # symtable cross-check of the resolver on input and output where symtable still reports comprehension scopes (<= 3.11)
    wv = ['3.11', '3.8', '3.11', '3.9', '3.11', '3.10', '3.11', '3.13'][ctx.index % 8]
    if fleet.interpreter_path(wv) is None:
        ctx.note('interpreter_missing:' + wv)
        return
    w = fleet.get_worker(wv)

    def prop_w(case):
        prog, opts = case
        f = fleet.src_fields(prog.source)
        if f is None:
            return
        req = {'op': 'scopes', 'opts': opts}
        req.update(f)
        rep = w.call(req)
        if rep.get('timeout') or rep.get('worker_died'):
            ctx.note('worker_timeout_or_death:' + wv)
            return
        if 'harness_error' in rep:
            raise RuntimeError('worker %s: %s' % (wv, rep['harness_error']))
        if rep.get('resolver_disagrees_with_symtable'):
            raise RuntimeError('resolver disagrees with symtable (harness bug): %r on %r' % (rep['resolver_disagrees_with_symtable'], prog.source))
        ctx.notes['oracle_validated_scopes'] += rep.get('validated_scopes', 0)
        if rep['status'] in ('domain', 'raises'):
            ctx.note('not_evaluable:%s:%s' % (wv, rep['status']))
            ctx.evaluations += 1
            return
        if rep['status'] == 'violation':
            ctx.case(sha(prog.source, api.opts_key(opts), wv), True, classes=['violating'])
            ctx.fail({'source': prog.source, 'opts': opts, 'interp': wv}, tuple(rep['signature']) + (wv,), rep['detail'])
            return
        nt = bool(rep['renamed'] or rep['aliases']) and rep['n_scopes'] >= 3
        ctx.case(sha(prog.source, api.opts_key(opts), wv), nt, classes=['interp:' + wv] + (['renamed:' + wv] if rep['renamed'] else []),
                 sample={'interpreter': wv, 'source': prog.source[:300], 'renamed': rep['renamed'][:6]})

    hyp_run(ctx, 'w' + wv, st.tuples(progs.programs(profile='shape', level=fleet.level_of(wv)), rename_option_sets()), prop_w, ctx.n(1600, 100000))
