"""C12 - minifying never runs code taken from the input."""
from hypothesis import strategies as st

from .. import api, fleet
from ..gen import hostile, progs
from ..oracle import monitor
from ..runner import hyp_run, sha

ID = 'C12'
LEVEL = 'exploration'
RULE_FUZZ = ' A coverage-guided byte fuzz step (atheris, same target as C08 in monitor-only mode) adds raw-byte inputs under the same monitor.'
RULE = ('Modules whose data is hostile to the quoting code: str/bytes constants assembled from quote characters, backslashes, CR/LF, braces, NUL, '
        'string prefixes, triple quotes and payload fragments that would import a canary module if they escaped a literal; placed as plain literals, '
        'f-string literal text, nested str/bytes inside f-string expressions (1-3 levels), format specs, debug-specifier look-alikes, dict keys, and '
        'numeric payloads for the folder; plus generated ordinary modules; x option sets; on the host (3.12, PEP 701 forms) and inside every other '
        'installed interpreter incl. 2.7. The quoting components (MiniString, f_string.Str, f_string.Bytes) are also driven directly with the same '
        'data. Oracle: an execution monitor (wrapped eval/exec/__import__, audit hook on >= 3.8) judges every text/code object evaluated from a '
        'python_minifier frame: it must compile to a closed literal expression (no names, no nested code); no import of a new module other than '
        'python_minifier.*/encodings.*, no open/process/socket/ctypes audit event, canary never imported. Non-literal text is refused, never run. '
        'Non-trivial: the run evaluated at least one text derived from the input and the input contains a quoting metacharacter. '
        'Distinct = sha256(source, options, interpreter).')
ASSUMPTIONS = ['Python-level events only (audit hook + builtins wrappers)', 'one warm-up minify call per process so that lazy imports are not attributed to the input']

_warm = False


def warm():
    global _warm
    if not _warm:
        for o in (api.DEFAULTS, api.ALL_ON):
            api.minify("import os\nx = f'{a!r:>{b}} {\"s\"}' + 'q' + b'b'\ny = 1 + 2\nclass A(object):\n    def f(self): raise ValueError()\n", o)
        monitor.MONITOR.install()
        _warm = True


def oracle(case):
    warm()
    comps = [tuple(c) for c in case.get('components', [])]
    rep = monitor.audit_minify(case['source'], api.kwargs(case['opts']), comps)
    if not rep['ok']:
        return tuple(rep['signature']), rep['observed']
    return None


def replay(case):
    if case.get('interp'):
        return fleet.replay_on(case['interp'], {'op': 'audit', 'src': case['source'], 'opts': case['opts']})
    return oracle(case)


META = set('\'"\\{}\n\r\0')


def shard(ctx):
    warm()

    @st.composite
    def cases(draw):
        if draw(st.integers(0, 9)) < 8:
            src = draw(hostile.hostile_modules(pep701=True))
        else:
            src = draw(progs.programs(profile='syntax', level=(3, 12))).source
        comps = []
        if draw(st.integers(0, 3)) == 0:
            comps = [('MiniString', draw(hostile.hostile_str())), ('Str', draw(hostile.hostile_str())), ('Bytes', draw(hostile.hostile_bytes()))]
        return {'source': src, 'opts': draw(api.option_sets()), 'components': comps}

    def prop(c):
        rep = monitor.audit_minify(c['source'], api.kwargs(c['opts']), [tuple(x) for x in c['components']])
        nt = rep['evaluated'] > 0 and bool(META & set(c['source']))
        ctx.case(sha(c['source'], api.opts_key(c['opts']), repr(c['components'])), nt,
                 classes=['host', 'outcome:' + str(rep['outcome'])[:30]] + (['components'] if c['components'] else []),
                 sample={'source': c['source'][:300], 'evaluated_texts': rep['samples'], 'n_evaluated': rep['evaluated']})
        ctx.notes['evaluated_texts'] += rep['evaluated']
        if not rep['ok']:
            ctx.fail(c, tuple(rep['signature']), rep['observed'])

    hyp_run(ctx, 'host', cases(), prop, ctx.n(12000, 400000))

    versions = ['2.7'] + fleet.PY3_OTHERS
    v = versions[ctx.index % len(versions)]
    if fleet.interpreter_path(v) is None:
        ctx.note('interpreter_missing:' + v)
        return
    w = fleet.get_worker(v)

    @st.composite
    def wcases(draw):
        if v == '2.7':
            s = draw(hostile.hostile_str())
            b = draw(hostile.hostile_bytes(3))
            try:
                b.decode('ascii')
            except UnicodeDecodeError:
                b = b'b'
            src = 'v0 = %r\nv1 = b%r\nv2 = u%r\nv3 = 1 + 2 * 3\n' % (s.encode('ascii', 'ignore').decode(), b.decode('ascii'), s.encode('ascii', 'ignore').decode())
        else:
            src = draw(hostile.hostile_modules(pep701=False))
        return {'source': src, 'opts': draw(api.option_sets())}

    def prop_w(c):
        f = fleet.src_fields(c['source'])
        if f is None:
            ctx.note('unencodable_source')
            return
        req = {'op': 'audit', 'opts': c['opts']}
        req.update(f)
        rep = w.call(req)
        if rep.get('timeout') or rep.get('worker_died'):
            ctx.note('worker_timeout_or_death:' + v)
            return
        if 'harness_error' in rep:
            raise RuntimeError('worker %s: %s' % (v, rep['harness_error']))
        nt = rep['evaluated'] > 0 and bool(META & set(c['source']))
        ctx.case(sha(c['source'], api.opts_key(c['opts']), v), nt, classes=['interp:' + v, 'outcome:%s:%s' % (v, str(rep['outcome'])[:30])],
                 sample={'interpreter': v, 'source': c['source'][:300], 'evaluated_texts': rep['samples']})
        ctx.notes['evaluated_texts'] += rep['evaluated']
        if not rep['ok']:
            ctx.fail(dict(c, interp=v), tuple(rep['signature']) + (v,), rep['observed'])

    hyp_run(ctx, 'fleet-' + v, wcases(), prop_w, ctx.n(6000, 200000))


RULE = RULE + RULE_FUZZ


def parent_post(tier, seed, merged):
    """Coverage-guided byte-level fuzzing (atheris) of minify() under the execution monitor; skipped (and said so) if atheris is missing."""
    from ..fuzz import driver
    return driver.run('C12', tier, seed, jobs_quick=8, jobs_thorough=16, runs_quick=4000, runs_thorough=100000)
