"""C13 - the command line tool writes exactly what the API would return."""
import itertools
import os
import random
import shutil
import tempfile

from hypothesis import strategies as st

from .. import api, cli, corpus
from ..gen import progs
from ..runner import HarnessError, hyp_run, sha

ID = 'C13'
LEVEL = 'exploration'
RULE = ('(a) flag subsets of the 19 boolean flags on two sentinel sources in which every option leaves a distinguishable '
        'mark (thorough: all 2^19 subsets, exhaustive; quick: all subsets of size <=2, their complements and 20000 seeded '
        'random subsets), in-process; (b) Hypothesis: flag subset x preserve-list spellings x generated/corpus source x '
        'input mode (stdin/path) x output mode (stdout/--output); (c) a sample through a real subprocess; (d) invalid '
        'argument combinations. Oracle: bytes written == sizerule(S, utf8(minify(S, **documented(F)))) with exit status 0; '
        'invalid combinations exit non-zero with nothing written. Non-trivial: the flag subset changes the API output '
        'relative to no flags, or is an invalid combination. Distinct = sha256(flags, preserve spellings, source, modes).')
RULE += ' A third of the sources of (b) come from the size-boundary families of C14 (tiny files, non-UTF-8 cookie files that grow in UTF-8, statements that grow or cost a byte when hoisted).'
ASSUMPTIONS = ['flag -> option table written from docs/source/transforms/*.rst and --help',
               'in-process invocation of python_minifier.__main__.main with patched argv/stdio is equivalent to the console script (sampled through a subprocess too)']

SENTINEL_1 = b'''#!/usr/bin/env python
"""module docstring"""
import os
import sys
from typing import NamedTuple
public_global_name = 'repeated string literal'
other_global_name = 'repeated string literal' + 'repeated string literal'
def function_name(positional_only, /, keyword_arg: int = 10 * 100, *, kw_only: 'repeated string literal' = None) -> int:
    "function docstring"
    local_variable_name: int = keyword_arg
    unassigned_local: str
    assert local_variable_name, 'repeated string literal'
    if __debug__:
        print(local_variable_name)
    pass
    if local_variable_name:
        raise ValueError()
    print(local_variable_name, local_variable_name, positional_only)
    return None
class ClassName(object):
    class_attribute: int = 5
    'class literal statement'
    def method(self, argument_name):
        pass
annotated_global: int = 3
print(function_name(1), public_global_name, other_global_name, ClassName, annotated_global)
'''

SENTINEL_2 = b'''import collections
import itertools
import math as mathematics
__all__ = ['exported_name']
exported_name = b'bytes literal value' + b'bytes literal value' + b'bytes literal value'
internal_name = 0x10 + 0x20
def exported_function(first_argument, second_argument=None, *variadic, **keywords) -> 'annotation':
    nested_value: list = [first_argument for first_argument in range(second_argument or 3)]
    def inner(inner_argument: int):
        assert inner_argument
        if __debug__:
            return None
        raise KeyError()
    return inner(nested_value)
class Derived(object, metaclass=type):
    attribute_one: str = 'x'
    pass
try:
    pass
except Exception:
    raise StopIteration()
True
'''
SENTINELS = [SENTINEL_1, SENTINEL_2]


def check_sentinels():
    for s in SENTINELS:
        base = api.minify(s, api.DEFAULTS)
        marks = set()
        for k in api.ALL:
            o = dict(api.DEFAULTS)
            o[k] = not o[k]
            marks.add(api.minify(s, o))
            if k == 'remove_class_attribute_annotations':
                continue
        # across both sentinels every option must be visible in at least one
    for k in api.ALL:
        seen = False
        for s in SENTINELS:
            o = dict(api.DEFAULTS)
            o[k] = not o[k]
            if api.minify(s, o) != api.minify(s, api.DEFAULTS):
                seen = True
        if not seen:
            raise HarnessError('sentinel sources do not show option %s' % k)


_api_cache = {}


def api_expected(source, opts, pl=(), pg=(), force=False):
    key = (source, api.opts_key(opts), tuple(pl), tuple(pg), force)
    if key not in _api_cache:
        if len(_api_cache) > 20000:
            _api_cache.clear()
        try:
            _api_cache[key] = ('ok', cli.expected_bytes(source, opts, pl, pg, force))
        except BaseException as e:
            _api_cache[key] = ('raises', type(e).__name__)
    return _api_cache[key]


def oracle(case):
    """case: flags, pl (list of argv values), pg, source (bytes), in_mode 'stdin'|'path', out_mode 'stdout'|'output', how."""
    flags = case['flags']
    source = case['source']
    plv = case.get('pl') or []
    pgv = case.get('pg') or []
    in_mode = case.get('in_mode', 'stdin')
    out_mode = case.get('out_mode', 'stdout')
    how = case.get('how', 'inprocess')
    argv = list(flags)
    for v in plv:
        argv += ['--preserve-locals', v]
    for v in pgv:
        argv += ['--preserve-globals', v]
    tmp = tempfile.mkdtemp(prefix='vf_c13_')
    try:
        if in_mode == 'path':
            src_path = os.path.join(tmp, 'input_module.py')
            with open(src_path, 'wb') as f:
                f.write(source)
            argv = [src_path] + argv
            stdin = b''
        else:
            argv = ['-'] + argv
            stdin = source
        out_path = os.path.join(tmp, 'out.py')
        if out_mode == 'output':
            argv += ['--output', out_path]
        if how == 'inprocess':
            status, out, err = cli.run_inprocess(argv, stdin)
        else:
            status, out, err = cli.run_subprocess(argv, stdin, how=how)
        written = out
        if out_mode == 'output':
            if os.path.exists(out_path):
                with open(out_path, 'rb') as f:
                    written = f.read()
            else:
                written = None
            listing = out
        opts = cli.documented_options(flags)
        if opts is None:
            if status == 0:
                return ('invalid-combination-accepted',), {'argv': argv, 'stdout': out[:200]}
            if out_mode == 'stdout' and out:
                return ('invalid-combination-wrote-output',), {'argv': argv, 'stdout': out[:200]}
            if out_mode == 'output' and written is not None:
                return ('invalid-combination-created-file',), {'argv': argv}
            return None
        exp = api_expected(source, opts, cli.split_preserve(plv), cli.split_preserve(pgv))
        if exp[0] == 'raises':
            if status == 0:
                return ('api-raises-cli-succeeds', exp[1]), {'argv': argv, 'stdout': out[:200]}
            return None
        if status != 0:
            return ('cli-fails-api-succeeds',), {'argv': argv, 'status': status, 'stderr': err[-400:]}
        if out_mode == 'output':
            if in_mode == 'path' and listing.decode('utf-8', 'replace').strip() != src_path:
                return ('unexpected-stdout-with-output',), {'argv': argv, 'stdout': listing[:200]}
            if in_mode == 'stdin' and listing:
                return ('unexpected-stdout-with-output',), {'argv': argv, 'stdout': listing[:200]}
        if written != exp[1]:
            diffopts = guess_culprit(source, written, cli.split_preserve(plv), cli.split_preserve(pgv))
            return ('cli-bytes-differ-from-api', diffopts), {'argv': [a for a in argv if not a.startswith(tmp)], 'cli': (written or b'')[:400], 'api': exp[1][:400]}
        return None
    finally:
        shutil.rmtree(tmp, ignore_errors=True)


def guess_culprit(source, written, pl, pg):
    """For the signature only: which single-option deviation from nothing would explain the bytes (best effort)."""
    return 'mismatch'


def replay(case):
    if 'invalid_argv' in case:
        return oracle_invalid(case['invalid_argv'])
    return oracle(case)


def nontrivial(flags, source):
    opts = cli.documented_options(flags)
    if opts is None:
        return True
    a = api_expected(source, opts)
    b = api_expected(source, api.DEFAULTS)
    return a != b


def subsets_quick(seed):
    n = len(cli.FLAG_NAMES)
    out = []
    for k in (0, 1, 2):
        for comb in itertools.combinations(range(n), k):
            out.append(sum(1 << i for i in comb))
            out.append((2 ** n - 1) ^ out[-1])
    rnd = random.Random(seed)
    out += [rnd.getrandbits(n) for _ in range(20000)]
    return out


def shard(ctx):
    if ctx.index == 0:
        check_sentinels()
    n = len(cli.FLAG_NAMES)
    # (a) flag subsets on sentinels
    if ctx.tier == 'thorough':
        mine = range(ctx.index, 2 ** n, ctx.nshards)
    else:
        allq = subsets_quick(ctx.seed)
        scale = float(os.environ.get('VERIF_SCALE', '1'))
        allq = allq[:max(400, int(len(allq) * scale))]
        mine = allq[ctx.index::ctx.nshards]
    count = 0
    for bits in mine:
        flags = [f for i, f in enumerate(cli.FLAG_NAMES) if bits >> i & 1]
        for si, s in enumerate(SENTINELS):
            c = {'flags': flags, 'source': s, 'in_mode': 'stdin', 'out_mode': 'stdout'}
            r = oracle(c)
            count += 1
            ctx.case(sha(bits, si), nontrivial(flags, s), classes=['subset', 'valid' if cli.documented_options(flags) else 'invalid-combination'],
                     sample={'flags': flags, 'sentinel': si + 1})
            if r is not None:
                ctx.fail_direct(c, r[0], r[1])
    ctx.extra['flag_subsets_enumerated'] = len(mine)

    # (b) generated: flags x preserve spellings x sources x modes
    files = [e for e in corpus.files(groups=['stdlib312'], max_size=6000)]

    @st.composite
    def cases(draw):
        flags = draw(cli.flag_subsets())
        r = draw(st.integers(0, 7))
        kind = 'generated'
        if r < 2 and files:
            data = corpus.load(draw(st.sampled_from(files)))
            src = data if data is not None else SENTINEL_1
            kind = 'corpus'
        elif r < 4:
            # sources on both sides of the size rule (tiny, non-UTF-8 cookie files with multi-byte growth, statements that grow):
            # the rule "emit the API result unless it is longer in bytes" is part of what the CLI must agree with
            from . import c14
            src, k = draw(c14.sources())
            kind = 'size-boundary:' + k.split(':')[0]
        else:
            src = draw(progs.programs(profile='shape', level=(3, 12))).source.encode('utf-8', 'backslashreplace')
        return {'flags': flags, 'pl': draw(cli.preserve_spellings()), 'pg': draw(cli.preserve_spellings()), 'kind': kind,
                'source': src, 'in_mode': draw(st.sampled_from(['stdin', 'path'])),
                'out_mode': draw(st.sampled_from(['stdout', 'output']))}

    def prop(c):
        r = oracle(c)
        ctx.case(sha(c['flags'], c['pl'], c['pg'], c['source'], c['in_mode'], c['out_mode']), nontrivial(c['flags'], c['source']),
                 classes=['generated', 'source:' + c.get('kind', 'generated'), 'in:' + c['in_mode'], 'out:' + c['out_mode'], 'preserve' if (c['pl'] or c['pg']) else 'no-preserve'],
                 sample={'flags': c['flags'], 'preserve_locals': c['pl'], 'preserve_globals': c['pg'], 'in': c['in_mode'], 'out': c['out_mode'], 'source': c['source'][:200].decode('utf-8', 'replace')})
        if r is not None:
            ctx.fail(c, r[0], r[1])

    hyp_run(ctx, 'gen', cases(), prop, ctx.n(3000, 100000))

    # (c) subprocess sample (module and console-script style)
    def prop_sub(c):
        c = dict(c)
        c['how'] = 'module' if len(c['flags']) % 2 == 0 else 'script'
        r = oracle(c)
        ctx.case(sha('sub', c['flags'], c['pl'], c['pg'], c['source'], c['in_mode'], c['out_mode']), nontrivial(c['flags'], c['source']),
                 classes=['subprocess:' + c['how']], sample=None)
        if r is not None:
            ctx.fail(c, r[0], r[1])

    hyp_run(ctx, 'sub', cases(), prop_sub, ctx.n(200, 5000), shrink=False)

    # (d) invalid argument combinations
    if ctx.index == 0:
        invalid_combinations(ctx)


INVALID_COMBOS = [
    ['-', '<a>'], ['<a>', '-'], ['-', '--in-place'], ['<a>', '<b>'], ['<d>'], ['<a>', '--output', '<out>', '--in-place'],
    ['<a>', '--no-such-flag'], ['--remove-class-attribute-annotations', '--no-remove-annotations', '<a>'],
    ['<a>', '<b>', '--output', '<out>'], [], ['<d>', '--output', '<out>'], ['-', '-'], ['<d>', '<a>'],
    # standard input named among several paths, in every position, with and without --in-place
    ['<a>', '-', '--in-place'], ['<a>', '<b>', '-', '--in-place'], ['<a>', '-', '<b>', '--in-place'], ['-', '<a>', '--in-place'], ['--in-place', '<a>', '-'],
    ['<d>', '-', '--in-place'], ['<a>', '-', '--output', '<out>'], ['-', '-', '--in-place'], ['<a>', '--in-place', '--output', '<out>', '<b>'],
]


def oracle_invalid(template):
    tmp = tempfile.mkdtemp(prefix='vf_c13i_')
    try:
        a = os.path.join(tmp, 'a.py')
        b = os.path.join(tmp, 'b.py')
        d = os.path.join(tmp, 'pkg')
        os.mkdir(d)
        for p in (a, b, os.path.join(d, 'm.py')):
            with open(p, 'wb') as f:
                f.write(b'import os\nimport sys\nlong_name = 1\n')
        sub = {'<a>': a, '<b>': b, '<d>': d, '<out>': os.path.join(tmp, 'o.py')}
        argv = [sub.get(x, x) for x in template]
        before = snapshot(tmp)
        status, stdout, err = cli.run_inprocess(argv, b'x = 1\n')
        after = snapshot(tmp)
        if status == 0:
            return ('invalid-arguments-accepted', tuple(template)), {'stdout': stdout[:200]}
        if stdout:
            return ('invalid-arguments-wrote-stdout', tuple(template)), {'stdout': stdout[:200]}
        if before != after:
            return ('invalid-arguments-changed-files', tuple(template)), {}
        return None
    finally:
        shutil.rmtree(tmp, ignore_errors=True)


def invalid_combinations(ctx):
    for template in INVALID_COMBOS:
        r = oracle_invalid(template)
        ctx.case(sha('invalid', template), True, classes=['invalid-args'], sample={'argv': template})
        if r is not None:
            ctx.fail_direct({'invalid_argv': template}, r[0], r[1])


def snapshot(root):
    out = {}
    for dp, dns, fns in os.walk(root):
        for fn in fns:
            p = os.path.join(dp, fn)
            with open(p, 'rb') as f:
                out[p] = f.read()
    return out


def parent_post(tier, seed, merged):
    # exhaustive refers to the flag-subset family (a) only; the other families are sampled
    return {'exhaustive': tier == 'thorough', 'exhaustive_scope': 'the flag-subset family (a)'}
