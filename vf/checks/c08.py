"""C08 - every compilable module is minified without error into a compilable module;
unparseable input gives exactly the interpreter's own parse exception."""
import ast
import re
import warnings

from hypothesis import strategies as st

from .. import api, corpus
from ..gen import breakers, progs
from ..oracle import strict_ast
from ..runner import hyp_run, sha

ID = 'C08'
LEVEL = 'exploration'
RULE = ('Cases: (a) modules generated as stdlib ast trees by vf.gen.progs (all statement/expression kinds, '
        'scope shapes, adversarial constants), printed by ast.unparse; (b) slices of pinned corpus files; '
        '(c) valid sources with one generated breaking edit; each x an option set over all 18 switches '
        '(corners over-weighted) and, for a share of cases, on the other installed interpreters via the worker fleet. '
        'Oracle: compile(S) ok => minify(S,O) returns str and compile(result) ok; ast.parse(S) raises E => minify raises '
        'the same class E. Non-trivial: compilable side has >=10 AST nodes and output text != input text; '
        'parse-failure side is one edit away from a compilable source. Distinct = sha256(source, options, interpreter).')
ASSUMPTIONS = ['compile() of the running interpreter defines "valid module"',
               'AST nesting depth bounded (the visitors are recursive; recursion limit is the caller\'s setting)',
               'sources that parse but do not compile carry no obligation']


def norm_msg(msg):
    msg = re.sub(r"'[^']*'", "'_'", str(msg))
    msg = re.sub(r'\(<[^>]*>, line \d+\)', '', msg)
    msg = re.sub(r'line \d+', 'line N', msg)
    return msg.strip()[:120]


def parse_error(src):
    try:
        with warnings.catch_warnings():
            warnings.simplefilter('ignore')
            ast.parse(src, 'python_minifier.minify source')
        return None
    except BaseException as e:
        return type(e).__name__


def oracle(case):
    """Returns None if the property holds on this case, else (signature, observed)."""
    src = case['source']
    opts = case['opts']
    perr = parse_error(src)
    if perr is None:
        if api.compiles(src) is not None:
            return None
        try:
            out = api.minify(src, opts)
        except RecursionError:
            return None
        except BaseException as e:
            return ('raises', type(e).__name__, api.innermost_frame(e)), str(e)[:300]
        if not isinstance(out, str):
            return ('returns-non-str', type(out).__name__), repr(out)[:200]
        c = api.compiles(out)
        if c is not None:
            return ('output-not-compilable', norm_msg(c)), {'output': out[:2000], 'error': c}
        return None
    if perr in ('RecursionError', 'MemoryError'):
        return None
    try:
        out = api.minify(src, opts)
    except BaseException as e:
        if type(e).__name__ != perr:
            return ('wrong-exception-for-unparseable', perr, type(e).__name__, api.innermost_frame(e)), str(e)[:300]
        return None
    return ('no-exception-for-unparseable', perr), repr(out)[:300]


def replay(case):
    if case.get('interp'):
        from ..fleet import replay_on
        return replay_on(case['interp'], {'op': 'c08', 'src': case['source'], 'opts': case['opts']})
    return oracle(case)


def nontrivial_compilable(src, opts):
    try:
        n = strict_ast.count_nodes(api.parse(src))
        if n < 10:
            return False
        return api.minify(src, opts) != src
    except BaseException:
        return True


def shard(ctx):
    # (a) generated modules x option sets
    def prop_gen(case):
        prog, opts = case
        c = {'source': prog.source, 'opts': opts}
        r = oracle(c)
        key = sha(prog.source, api.opts_key(opts))
        ctx.case(key, nontrivial_compilable(prog.source, opts), classes=['gen'] + ['f:' + f for f in prog.features],
                 sample={'source': prog.source[:400], 'options_on': api.on_list(opts)})
        if r is not None:
            ctx.fail(c, r[0], r[1])

    strat = st.tuples(st.one_of(progs.programs(profile='syntax'), progs.programs(profile='shape')), api.option_sets())
    hyp_run(ctx, 'gen', strat, prop_gen, ctx.n(6000, 250000))

    # (a2) modules full of literals hostile to the quoting code, and literal arithmetic in many contexts
    from ..gen import foldexprs, hostile
    other = st.one_of(hostile.hostile_modules(pep701=True).map(lambda s: progs.Program(s, (3, 12), ['hostile'])),
                      foldexprs.fold_modules().map(lambda t: progs.Program(t[0], (3, 12), ['arith'])))
    hyp_run(ctx, 'gen2', st.tuples(other, api.option_sets()), prop_gen, ctx.n(3000, 100000))

    # (b) corpus files (whole) x 3 / 8 option sets
    files = corpus.files(max_size=40000)
    per = ctx.n(150, len(files))
    mine = corpus.shard_slice(files, ctx.index, ctx.nshards)
    if ctx.tier == 'quick':
        import random
        rnd = random.Random(ctx.sub_seed('corpus'))
        rnd.shuffle(mine)
        mine = mine[:per]
    nopt = 3 if ctx.tier == 'quick' else 8

    def prop_corpus(case):
        entry, optlist = case
        data = corpus.load(entry)
        if data is None:
            ctx.note('corpus_file_changed_or_missing')
            return
        for opts in optlist:
            c = {'source': data, 'opts': opts, 'file': entry['path']}
            r = oracle(c)
            ctx.case(sha(data, api.opts_key(opts)), True, classes=['corpus'],
                     sample={'file': entry['path'], 'options_on': api.on_list(opts)})
            if r is not None:
                ctx.fail(c, r[0], r[1])

    if mine:
        strat = st.tuples(st.sampled_from(mine), st.lists(api.option_sets(), min_size=nopt, max_size=nopt))
        hyp_run(ctx, 'corpus', strat, prop_corpus, len(mine), shrink=False)

    # (c) breakers: a valid source with one generated breaking edit
    def prop_break(case):
        (src, edit), opts = case
        c = {'source': src, 'opts': opts}
        r = oracle(c)
        perr = parse_error(src)
        ctx.case(sha(src, api.opts_key(opts)), perr is not None, classes=['breaker', 'breaker:' + edit, 'parse:' + str(perr)],
                 sample={'source': src if isinstance(src, str) else repr(src), 'edit': edit, 'parse_error': perr})
        if r is not None:
            ctx.fail(c, r[0], r[1])

    hyp_run(ctx, 'break', st.tuples(breakers.broken_sources(), api.option_sets()), prop_break, ctx.n(2500, 60000))

    # (d) the other interpreters
    from .. import fleet
    fleet.run_fleet_share(ctx, 'c08', ctx.n(1600, 60000))
    from ..gen import exhaustive
    for o in (api.ALL_OFF, api.DEFAULTS):
        fleet.run_fixed(ctx, 'c08', exhaustive.version_sensitive_sources(), opts=o)


def parent_post(tier, seed, merged):
    """Coverage-guided byte-level fuzzing (atheris) with the same oracle inside the target; skipped (and said so) if atheris is missing."""
    import glob
    import json
    import os
    import re
    import shutil
    import subprocess
    import sys
    import tempfile
    from .. import VERIF_ROOT
    from ..gen import breakers
    target = os.path.join(VERIF_ROOT, 'vf', 'fuzz', 'c08_bytes.py')
    if not os.path.isdir(os.path.join(VERIF_ROOT, '.deps', 'atheris')):
        return {'fuzz': 'atheris not installed (setup_cmd could not install it): coverage-guided sub-step skipped'}
    scale = float(os.environ.get('VERIF_SCALE', '1'))
    jobs = 8 if tier == 'quick' else 16
    runs = int((4000 if tier == 'quick' else 250000) * scale)
    work = tempfile.mkdtemp(prefix='vf_fuzz_')
    procs = []
    try:
        for j in range(jobs):
            corpus = os.path.join(work, 'corpus%d' % j)
            out = os.path.join(work, 'out%d' % j)
            os.makedirs(corpus)
            if j % 2 == 0:
                # half of the jobs start from small valid inputs, the other half from an empty corpus
                for i, src in enumerate(breakers.SEEDS):
                    with open(os.path.join(corpus, 'seed%d' % i), 'wb') as f:
                        f.write(bytes([i % 8, 1 + (i % 3)]) + src.encode('utf-8'))
            env = dict(os.environ)
            env['PYTHONHASHSEED'] = '0'
            procs.append((j, out, subprocess.Popen([sys.executable, target, corpus, out, '-runs=%d' % runs, '-seed=%d' % (seed * 100 + j + 1), '-max_len=600',
                                                    '-print_final_stats=1', '-verbosity=0'], stdout=subprocess.PIPE, stderr=subprocess.STDOUT, env=env)))
        execs = 0
        violations = []
        crashed = 0
        for j, out, p in procs:
            try:
                o, _ = p.communicate(timeout=3600)
            except subprocess.TimeoutExpired:
                p.kill()
                o = b''
            m = re.search(rb'stat::number_of_executed_units:\s*(\d+)', o)
            if m:
                execs += int(m.group(1))
            for vf_ in glob.glob(os.path.join(out, 'violation-*.json')):
                d = json.load(open(vf_))
                dest = os.path.join(VERIF_ROOT, 'replays', 'C08')
                os.makedirs(dest, exist_ok=True)
                name = 'fuzz-' + os.path.basename(vf_)
                shutil.copy(vf_, os.path.join(dest, name))
                violations.append({'replay': 'replays/C08/' + name, 'signature': d['signature']})
            if p.returncode not in (0, None) and not glob.glob(os.path.join(out, 'violation-*.json')):
                crashed += 1
        res = {'fuzz': {'engine': 'atheris/libFuzzer', 'jobs': jobs, 'runs_per_job': runs, 'executions': execs, 'jobs_ending_abnormally_without_violation': crashed,
                        'corpus': 'even jobs: %d seed snippets, odd jobs: empty' % len(breakers.SEEDS)}}
        if violations:
            res['violations'] = violations
        return res
    finally:
        shutil.rmtree(work, ignore_errors=True)
