"""C08 - every compilable module is minified without error into a compilable module;
unparseable input gives exactly the interpreter's own parse exception."""
import ast
import re
import warnings

from hypothesis import strategies as st

from .. import api, corpus
from ..gen import breakers, progs
from ..oracle import strict_ast
from ..runner import hyp_run, sha

ID = 'C08'
LEVEL = 'exploration'
RULE = ('Cases: (a) modules generated as stdlib ast trees by vf.gen.progs (all statement/expression kinds, '
        'scope shapes, adversarial constants), printed by ast.unparse; (b) slices of pinned corpus files; '
        '(c) valid sources with one generated breaking edit; each x an option set over all 18 switches '
        '(corners over-weighted) and, for a share of cases, on the other installed interpreters via the worker fleet. '
        'Oracle: compile(S) ok => minify(S,O) returns str and compile(result) ok; ast.parse(S) raises E => minify raises '
        'the same class E. Non-trivial: compilable side has >=10 AST nodes and output text != input text; '
        'parse-failure side is one edit away from a compilable source. Distinct = sha256(source, options, interpreter).')
RULE += ' About 190 fixed version-sensitive spellings run in every interpreter; a coverage-guided byte fuzz step (atheris) runs this oracle inside the target.'
ASSUMPTIONS = ['compile() of the running interpreter defines "valid module"',
               'AST nesting depth bounded (the visitors are recursive; recursion limit is the caller\'s setting)',
               'sources that parse but do not compile carry no obligation']


def norm_msg(msg):
    msg = re.sub(r"'[^']*'", "'_'", str(msg))
    msg = re.sub(r'\(<[^>]*>, line \d+\)', '', msg)
    msg = re.sub(r'line \d+', 'line N', msg)
    return msg.strip()[:120]


def parse_error(src):
    try:
        with warnings.catch_warnings():
            warnings.simplefilter('ignore')
            ast.parse(src, 'python_minifier.minify source')
        return None
    except BaseException as e:
        return type(e).__name__


def oracle(case):
    """Returns None if the property holds on this case, else (signature, observed)."""
    src = case['source']
    opts = case['opts']
    perr = parse_error(src)
    if perr is None:
        if api.compiles(src) is not None:
            return None
        try:
            out = api.minify(src, opts)
        except RecursionError:
            return None
        except BaseException as e:
            return ('raises', type(e).__name__, api.innermost_frame(e)), str(e)[:300]
        if not isinstance(out, str):
            return ('returns-non-str', type(out).__name__), repr(out)[:200]
        c = api.compiles(out)
        if c is not None:
            return ('output-not-compilable', norm_msg(c)), {'output': out[:2000], 'error': c}
        return None
    if perr in ('RecursionError', 'MemoryError'):
        return None
    try:
        out = api.minify(src, opts)
    except BaseException as e:
        if type(e).__name__ != perr:
            return ('wrong-exception-for-unparseable', perr, type(e).__name__, api.innermost_frame(e)), str(e)[:300]
        return None
    return ('no-exception-for-unparseable', perr), repr(out)[:300]


def replay(case):
    if case.get('interp'):
        from ..fleet import replay_on
        return replay_on(case['interp'], {'op': 'c08', 'src': case['source'], 'opts': case['opts']})
    return oracle(case)


def nontrivial_compilable(src, opts):
    try:
        n = strict_ast.count_nodes(api.parse(src))
        if n < 10:
            return False
        return api.minify(src, opts) != src
    except BaseException:
        return True


def shard(ctx):
    # (a) generated modules x option sets
    def prop_gen(case):
        prog, opts = case
        c = {'source': prog.source, 'opts': opts}
        r = oracle(c)
        key = sha(prog.source, api.opts_key(opts))
        ctx.case(key, nontrivial_compilable(prog.source, opts), classes=['gen'] + ['f:' + f for f in prog.features],
                 sample={'source': prog.source[:400], 'options_on': api.on_list(opts)})
        if r is not None:
            ctx.fail(c, r[0], r[1])

    strat = st.tuples(st.one_of(progs.programs(profile='syntax'), progs.programs(profile='shape')), api.option_sets())
    hyp_run(ctx, 'gen', strat, prop_gen, ctx.n(6000, 250000))

    # (a2) modules full of literals hostile to the quoting code, and literal arithmetic in many contexts
    from ..gen import foldexprs, hostile
    other = st.one_of(hostile.hostile_modules(pep701=True).map(lambda s: progs.Program(s, (3, 12), ['hostile'])),
                      foldexprs.fold_modules().map(lambda t: progs.Program(t[0], (3, 12), ['arith'])))
    hyp_run(ctx, 'gen2', st.tuples(other, api.option_sets()), prop_gen, ctx.n(3000, 100000))

    # (b) corpus files (whole) x 3 / 8 option sets
    files = corpus.files(max_size=40000)
    per = ctx.n(150, len(files))
    mine = corpus.shard_slice(files, ctx.index, ctx.nshards)
    if ctx.tier == 'quick':
        import random
        rnd = random.Random(ctx.sub_seed('corpus'))
        rnd.shuffle(mine)
        mine = mine[:per]
    nopt = 3 if ctx.tier == 'quick' else 8

    def prop_corpus(case):
        entry, optlist = case
        data = corpus.load(entry)
        if data is None:
            ctx.note('corpus_file_changed_or_missing')
            return
        for opts in optlist:
            c = {'source': data, 'opts': opts, 'file': entry['path']}
            r = oracle(c)
            ctx.case(sha(data, api.opts_key(opts)), True, classes=['corpus'],
                     sample={'file': entry['path'], 'options_on': api.on_list(opts)})
            if r is not None:
                ctx.fail(c, r[0], r[1])

    if mine:
        strat = st.tuples(st.sampled_from(mine), st.lists(api.option_sets(), min_size=nopt, max_size=nopt))
        hyp_run(ctx, 'corpus', strat, prop_corpus, len(mine), shrink=False)

    # (c) breakers: a valid source with one generated breaking edit
    def prop_break(case):
        (src, edit), opts = case
        c = {'source': src, 'opts': opts}
        r = oracle(c)
        perr = parse_error(src)
        ctx.case(sha(src, api.opts_key(opts)), perr is not None, classes=['breaker', 'breaker:' + edit, 'parse:' + str(perr)],
                 sample={'source': src if isinstance(src, str) else repr(src), 'edit': edit, 'parse_error': perr})
        if r is not None:
            ctx.fail(c, r[0], r[1])

    hyp_run(ctx, 'break', st.tuples(breakers.broken_sources(), api.option_sets()), prop_break, ctx.n(2500, 60000))

    # (d) the other interpreters
    from .. import fleet
    fleet.run_fleet_share(ctx, 'c08', ctx.n(1600, 60000))
    from ..gen import exhaustive
    for o in (api.ALL_OFF, api.DEFAULTS):
        fleet.run_fixed(ctx, 'c08', exhaustive.version_sensitive_sources(), opts=o)


def parent_post(tier, seed, merged):
    """Coverage-guided byte-level fuzzing (atheris) with the C08 oracle inside the target; skipped (and said so) if atheris is missing."""
    from ..fuzz import driver
    return driver.run('C08', tier, seed, jobs_quick=8, jobs_thorough=16, runs_quick=4000, runs_thorough=150000)
