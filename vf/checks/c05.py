"""C05 - each option performs only its documented rewrite, only where it is valid."""
from hypothesis import strategies as st

from .. import api
from ..gen import progs, triggers
from ..oracle import canon, strict_ast
from ..runner import hyp_run, sha

ID = 'C05'
LEVEL = 'exploration'
RULE = ('Option-trigger-dense programs (vf.gen.triggers: pass alone and among statements; literal statements of every constant type incl. ... and '
        'f-strings; docstrings in module/def/class with and without __doc__ being used as name or attribute; import runs - adjacent, separated, '
        'from-imports of equal/different modules and levels, star imports; return None / bare return at the end of a def, in nested blocks, in the '
        'middle; object as only base, among bases, as keyword value, as builtins.object; raise X() / raise X() from Y() with builtin exceptions, '
        'non-exception builtins, user classes, shadowed builtin exceptions, with arguments; annotations of the four kinds on simple and non-simple '
        'targets, value-less, in classes decorated as dataclass in every documented spelling and with stacked decorators, NamedTuple/TypedDict bases; '
        'assert; the documented __debug__ forms and look-alikes with else/elif branches; positional-only markers; literal arithmetic) in all block '
        'kinds (module, def, class, if/elif/else, for/while+else, try/except/else/finally, except*, with, match), plus general generated modules, '
        'x option sets over the 15 non-renaming switches (corners over-weighted; renaming and hoisting off - they are judged by C03/C06). '
        'Oracle: compile(output) succeeds and canon_O(parse(P)) is strictly equal to canon_O(parse(minify(P,O))), where canon_O - written from '
        'docs/source/transforms/*.rst - erases exactly the documented rewrites of the enabled options on both sides (so rewriting less passes, rewriting '
        'elsewhere or with the option off leaves a difference). Non-trivial: some enabled option had an applicable site (output differs from the '
        'all-off printing) or a disabled option had one. Distinct = sha256(source, options).')
ASSUMPTIONS = ['canon_O is a faithful reading of the documentation', 'name-touching options are off here']

KEYS = [k for k in api.ALL if k not in ('rename_locals', 'rename_globals', 'hoist_literals')]


@st.composite
def option_sets(draw):
    o = draw(api.option_sets(keys=KEYS, base=api.ALL_OFF))
    for k in ('rename_locals', 'rename_globals', 'hoist_literals'):
        o[k] = False
    return o


def oracle(case):
    src = case['source']
    opts = case['opts']
    if api.compiles(src) is not None:
        return None
    try:
        out = api.minify(src, opts)
    except RecursionError:
        return None
    except BaseException as e:
        return None  # C08's business
    c = api.compiles(out)
    if c is not None:
        from ..oracle.scopecheck import norm_msg
        return ('output-not-compilable', norm_msg(c)), {'out': out[:1200], 'error': c}
    try:
        tree = api.parse(src)
        doc_used = canon.uses_doc_name(tree)
        a = canon.canon(tree, opts, doc_used)
        b = canon.canon(api.parse(out), opts, doc_used)
    except RecursionError:
        return None
    d = strict_ast.diff(a, b)
    if d is not None:
        import re
        where = re.sub(r'\[\d+\]', '[]', d.split(':')[0])
        return ('rewrite-outside-documentation', where[-50:], d.split(':', 1)[1].strip()[:40]), {'diff': d, 'out': out[:1500]}
    return None


def replay(case):
    return oracle(case)


def shard(ctx):
    def prop(case):
        (src, sites), opts = case
        c = {'source': src, 'opts': opts}
        r = oracle(c)
        try:
            changed = api.minify(src, opts) != api.minify(src, dict(api.ALL_OFF))
        except BaseException:
            changed = False
        off_with_site = any(s for s in sites)
        ctx.case(sha(src, api.opts_key(opts)), bool(changed or off_with_site), classes=['site:' + s for s in sites] + (['changed'] if changed else []) + ['on:' + k for k in KEYS if opts[k]],
                 sample={'source': src[:500], 'options_on': api.on_list(opts)})
        if r is not None:
            ctx.fail(c, r[0], r[1])

    general = st.one_of(progs.programs(profile='syntax', level=(3, 12)), progs.programs(profile='shape', level=(3, 12))).map(lambda p: (p.source, ['general']))
    hyp_run(ctx, 'triggers', st.tuples(triggers.trigger_programs(), option_sets()), prop, ctx.n(4000, 250000))
    hyp_run(ctx, 'general', st.tuples(general, option_sets()), prop, ctx.n(1000, 60000))
