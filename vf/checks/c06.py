"""C06 - hoisted literals are bound once, before use, to an identical value."""
import ast

from hypothesis import strategies as st

from .. import api, fleet
from ..gen import progs
from ..oracle import scopecheck
from ..runner import hyp_run, sha
from .c03 import _minify

ID = 'C06'
LEVEL = 'exploration'
RULE = ('Hoist-dense programs from vf.gen.progs (a small pool of long str/bytes values and True/False/None, each repeated, placed in nested '
        'defs/classes/lambdas/comprehensions, defaults, decorators, class bodies, base lists, annotations, f-string expression parts, format '
        'specs, match subjects/guards, __slots__ assignments, docstring positions, before/after __future__ imports, subscripts, dict keys, keyword '
        'values; equal-comparing values of different type side by side) x option sets with hoist_literals on (other switches random). '
        'Oracle: from the alignment of the un-hoisted baseline with the output: every introduced alias is an assignment in the contiguous block '
        'right after leading docstring/string statements and __future__ imports of a module or def body; its name has exactly one binding '
        'occurrence, is never deleted or declared global/nonlocal, and every use is a plain load that resolves (independent resolver) to that binding; '
        'inlining the aliases gives a tree strictly equal to the baseline up to renaming (so each literal got a constant of identical type and value); '
        'no replacement in docstring position, __slots__ values, f-string literal text or match patterns; docstrings of every module/def/class '
        'unchanged; __future__ imports still precede everything but the docstring. Non-trivial: at least one alias was introduced. '
        'Distinct = sha256(source, options).')
ASSUMPTIONS = ['baseline = same option set with hoist_literals and renaming off', 'parameter re-binding and builtin aliases are validated by C03, not here']


@st.composite
def hoist_option_sets(draw):
    o = draw(api.option_sets())
    o['hoist_literals'] = True
    return o


def check(src, opts):
    r = scopecheck.analyse(src, opts, _minify)
    if r['status'] != 'ok':
        return r, None
    B = r['_B']
    # docstrings / __future__: compare the original input's definitions with the output's when literal statements are kept
    if not opts.get('remove_literal_statements'):
        bad, detail = scopecheck.check_docstrings(api.parse(src), api.parse(r['out']))
        if bad:
            return r, (bad, detail)
    else:
        bad, detail = scopecheck.check_docstrings(B, api.parse(r['out']))
        if bad and bad[0] != 'docstring-changed':
            return r, (bad, detail)
    for a in r['_records']:
        if a['value'][0] == 'const' and a['container'] not in ('Module', 'FunctionDef', 'AsyncFunctionDef'):
            return r, (('alias-not-in-module-or-function-body', a['container']), a['name'])
    return r, None


def oracle(case):
    r, bad = check(case['source'], case['opts'])
    if r['status'] == 'violation':
        return tuple(r['signature']), r['detail']
    if bad:
        return tuple(bad[0]), {'what': bad[1], 'out': r.get('out', '')[:1500]}
    return None


def replay(case):
    if case.get('interp'):
        return fleet.replay_on(case['interp'], {'op': 'execdiff', 'src': case['source'], 'opts': case['opts']})
    return oracle(case)


def shard(ctx):
    def prop(case):
        prog, opts = case
        r, bad = check(prog.source, opts)
        if r['status'] in ('domain', 'raises'):
            ctx.note('not_evaluable:' + r['status'])
            ctx.evaluations += 1
            return
        c = {'source': prog.source, 'opts': opts}
        if r['status'] == 'violation':
            ctx.case(sha(prog.source, api.opts_key(opts)), True, classes=['violating'])
            ctx.fail(c, tuple(r['signature']), r['detail'])
            return
        consts = [a for a in r['aliases'] if a['value'][0] == 'const']
        classes = ['f:' + f for f in prog.features]
        for a in consts:
            classes.append('alias-in:' + a['container'])
            v = a['value'][1]
            classes.append('alias-kind:' + ('bytes' if v.startswith('b') else 'singleton' if v in ('True', 'False', 'None') else 'str'))
        ctx.case(sha(prog.source, api.opts_key(opts)), bool(consts), classes=classes,
                 sample={'source': prog.source[:400], 'options_on': api.on_list(opts), 'aliases': consts[:4]})
        if bad:
            ctx.fail(c, tuple(bad[0]), {'what': bad[1], 'out': r['out'][:1500]})

    strat = st.tuples(st.one_of(progs.programs(profile='shape', hoist_dense=True), progs.programs(profile='syntax', hoist_dense=True),
                                progs.programs(profile='shape', level=(3, 12), hoist_dense=True)), hoist_option_sets())
    hyp_run(ctx, 'hoist', strat, prop, ctx.n(4000, 150000))
    shard_py2(ctx)


# -- python 2.7: 'a' == u'a' there, so the type-aware value key of the hoister matters -------------------------------------------

PY2_VALUES = ['shared text value', 'another shared value', 'x' * 12]


@st.composite
def py2_hoist_programs(draw):
    val = draw(st.sampled_from(PY2_VALUES))
    fut = draw(st.sampled_from(['', '', 'from __future__ import unicode_literals\n']))
    kinds = draw(st.lists(st.sampled_from(["'%s'", "u'%s'", "b'%s'"]), min_size=4, max_size=9))
    items = ', '.join(k % val for k in kinds)
    where = draw(st.sampled_from(['module', 'function', 'both']))
    lines = [fut.strip()] if fut else []
    if where in ('function', 'both'):
        lines += ['def collect_values():', '    return [%s]' % items, 'for v in collect_values():', '    print type(v).__name__, repr(v)']
    if where in ('module', 'both'):
        lines += ['values = [%s]' % items, 'for v in values:', '    print type(v).__name__, repr(v)']
    return '\n'.join(lines) + '\n'


def shard_py2(ctx):
    if ctx.index % 4 != 1 or fleet.interpreter_path('2.7') is None:
        return
    w = fleet.get_worker('2.7')

    def prop(case):
        src, opts = case
        rep = w.call({'op': 'execdiff', 'src': src, 'opts': opts})
        if rep.get('timeout') or rep.get('worker_died'):
            ctx.note('worker_timeout_or_death:2.7')
            return
        if 'harness_error' in rep:
            raise RuntimeError(rep['harness_error'])
        if rep.get('domain') is False:
            ctx.note('out_of_domain:2.7:' + str(rep.get('why')))
            return
        ctx.case(sha('py2', src, api.opts_key(opts)), bool(rep.get('changed')), classes=['interp:2.7', 'py2-str-vs-unicode'], sample={'interpreter': '2.7', 'source': src[:300], 'stdout': rep.get('stdout')})
        if rep.get('ok') is False:
            ctx.fail({'source': src, 'opts': opts, 'interp': '2.7'}, tuple(rep['signature']) + ('2.7',), rep.get('observed'))

    hyp_run(ctx, 'py2hoist', st.tuples(py2_hoist_programs(), hoist_option_sets()), prop, ctx.n(300, 6000) * 4)
