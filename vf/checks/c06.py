"""C06 - hoisted literals are bound once, before use, to an identical value."""
import ast

from hypothesis import strategies as st

from .. import api, fleet
from ..gen import progs
from ..oracle import scopecheck
from ..runner import hyp_run, sha
from .c03 import _minify

ID = 'C06'
LEVEL = 'exploration'
RULE = ('Hoist-dense programs from vf.gen.progs (a small pool of long str/bytes values and True/False/None, each repeated, placed in nested '
        'defs/classes/lambdas/comprehensions, defaults, decorators, class bodies, base lists, annotations, f-string expression parts, format '
        'specs, match subjects/guards, __slots__ assignments, docstring positions, before/after __future__ imports, subscripts, dict keys, keyword '
        'values; equal-comparing values of different type side by side) x option sets with hoist_literals on (other switches random). '
        'Oracle: from the alignment of the un-hoisted baseline with the output: every introduced alias is an assignment in the contiguous block '
        'right after leading docstring/string statements and __future__ imports of a module or def body; its name has exactly one binding '
        'occurrence, is never deleted or declared global/nonlocal, and every use is a plain load that resolves (independent resolver) to that binding; '
        'inlining the aliases gives a tree strictly equal to the baseline up to renaming (so each literal got a constant of identical type and value); '
        'no replacement in docstring position, __slots__ values, f-string literal text or match patterns; docstrings of every module/def/class '
        'unchanged; __future__ imports still precede everything but the docstring. Non-trivial: at least one alias was introduced. '
        'Distinct = sha256(source, options).')
ASSUMPTIONS = ['baseline = same option set with hoist_literals and renaming off', 'parameter re-binding and builtin aliases are validated by C03, not here']


@st.composite
def hoist_option_sets(draw):
    o = draw(api.option_sets())
    o['hoist_literals'] = True
    return o


def check(src, opts):
    r = scopecheck.analyse(src, opts, _minify)
    if r['status'] != 'ok':
        return r, None
    B = r['_B']
    # docstrings / __future__: compare the original input's definitions with the output's when literal statements are kept
    if not opts.get('remove_literal_statements'):
        bad, detail = scopecheck.check_docstrings(api.parse(src), api.parse(r['out']))
        if bad:
            return r, (bad, detail)
    else:
        bad, detail = scopecheck.check_docstrings(B, api.parse(r['out']))
        if bad and bad[0] != 'docstring-changed':
            return r, (bad, detail)
    for a in r['_records']:
        if a['value'][0] == 'const' and a['container'] not in ('Module', 'FunctionDef', 'AsyncFunctionDef'):
            return r, (('alias-not-in-module-or-function-body', a['container']), a['name'])
    return r, None


def oracle(case):
    r, bad = check(case['source'], case['opts'])
    if r['status'] == 'violation':
        return tuple(r['signature']), r['detail']
    if bad:
        return tuple(bad[0]), {'what': bad[1], 'out': r.get('out', '')[:1500]}
    return None


def replay(case):
    return oracle(case)


def shard(ctx):
    def prop(case):
        prog, opts = case
        r, bad = check(prog.source, opts)
        if r['status'] in ('domain', 'raises'):
            ctx.note('not_evaluable:' + r['status'])
            ctx.evaluations += 1
            return
        c = {'source': prog.source, 'opts': opts}
        if r['status'] == 'violation':
            ctx.case(sha(prog.source, api.opts_key(opts)), True, classes=['violating'])
            ctx.fail(c, tuple(r['signature']), r['detail'])
            return
        consts = [a for a in r['aliases'] if a['value'][0] == 'const']
        classes = ['f:' + f for f in prog.features]
        for a in consts:
            classes.append('alias-in:' + a['container'])
            v = a['value'][1]
            classes.append('alias-kind:' + ('bytes' if v.startswith('b') else 'singleton' if v in ('True', 'False', 'None') else 'str'))
        ctx.case(sha(prog.source, api.opts_key(opts)), bool(consts), classes=classes,
                 sample={'source': prog.source[:400], 'options_on': api.on_list(opts), 'aliases': consts[:4]})
        if bad:
            ctx.fail(c, tuple(bad[0]), {'what': bad[1], 'out': r['out'][:1500]})

    strat = st.tuples(st.one_of(progs.programs(profile='shape', hoist_dense=True), progs.programs(profile='syntax', hoist_dense=True),
                                progs.programs(profile='shape', level=(3, 12), hoist_dense=True)), hoist_option_sets())
    hyp_run(ctx, 'hoist', strat, prop, ctx.n(4000, 150000))
