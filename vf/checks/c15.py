"""C15 - in-place minification touches only Python files and never corrupts one."""
import os
import shutil
import tempfile

from hypothesis import strategies as st

from .. import api, cli
from ..runner import hyp_run, sha

ID = 'C15'
LEVEL = 'fault_enumeration'
RULE = ('Generated directory trees (depth <= 4; files named *.py, *.pyw, *.pyi, *.txt, *.py.bak, .py, Makefile, no suffix; contents: valid '
        'python that shrinks, already-minimal python, python that would grow, empty, invalid syntax, undecodable bytes, NUL bytes, cookie-encoded; '
        'symlinks to files and to link-free directories inside and outside the roots, dangling links named *.py; directories named like modules) '
        'x path argument lists (files of any suffix, directories, nested/overlapping roots, duplicates, missing paths) x flag subsets x '
        '{--in-place, --output}. Oracle (file-tree model): snapshot before/after; exit status 0 <=> no target is faulty; every non-target is '
        'byte-identical, nothing created or deleted (except --output); each real file visited k times before the failure holds E^k(pre) with '
        'E(x)=sizerule(x, api(x)); the failing file and all unvisited files are byte-identical; stdout is only the path listing; the set of visited '
        'paths equals the computed target set when there is no fault. Non-trivial: >=3 target files, >=1 non-target file, and a fault not in '
        'first position or a symlinked/duplicated target. Distinct = sha256(tree, argument list, flags).')
ASSUMPTIONS = ['permission faults are emulated by dangling symlinks and missing paths (the sandbox runs as root)',
               'symlink cycles are excluded (os.walk(followlinks=True) would recurse to the OS limit)',
               'the visiting order is taken from the tool\'s own path listing; the visited set is checked against an independent walk']

CONTENTS = {
    'shrinks': [b'import os\nimport sys\ndef function_name(argument_name):\n    local_value = argument_name\n    return local_value\n',
                b'# comment\n\n\nvalue = 1\n\n\nother = 2\n', b'class Thing(object):\n    def method(self):\n        pass\n',
                b'#!/usr/bin/env python\n"""doc"""\nif True:\n    print("hello")\n'],
    'minimal': [b'x=1', b'import a', b'def f():return 1'],
    'grows': [b"x='\\0'", b'x="\\0\\0"', b"# coding: latin-1\nx='" + b'\xe9' * 30 + b"'"],
    'empty': [b''],
    'invalid': [b'def (:\n', b'x = = 1\n', b'  indented = 1\n', b'print "py2"\n', b'x = (1,\n'],
    'undecodable': [b'x = "\xff\xfe"\n', b'\xff\xfe\x00x', b'# coding: utf-8\nx="\xe9"\n'],
    'nul': [b'x = 1\x00\n', b'\x00'],
    'cookie': [b'# -*- coding: latin-1 -*-\nname_of_value = "\xe9"\nprint(name_of_value)\n'],
}
FAULTY_KINDS = ('invalid', 'undecodable', 'nul')
FILE_NAMES = ['a.py', 'b.py', 'mod.py', 'script.pyw', 'stub.pyi', 'notes.txt', 'old.py.bak', '.py', 'Makefile', 'noext', 'data.pyc',
              'x.PY', 'setup.py', 'c.py', 'z.py', 'my.py.txt', 'py', 'test.pyw']
DIR_NAMES = ['pkg', 'sub', 'dir.py', 'x', 'tests']


@st.composite
def trees(draw):
    """A description: list of (relpath, kind, payload). Paths under 'work/' are candidates for arguments; 'outside/' is not."""
    entries = []
    dirs = ['work']
    files = []

    def add_dir(parent, depth):
        nfiles = draw(st.integers(0, 4))
        used = set()
        for _ in range(nfiles):
            name = draw(st.sampled_from(FILE_NAMES))
            if name in used:
                continue
            used.add(name)
            kind = draw(st.sampled_from(['shrinks', 'shrinks', 'shrinks', 'minimal', 'grows', 'empty', 'invalid', 'undecodable', 'nul', 'cookie']))
            p = parent + '/' + name
            entries.append((p, 'file', (kind, draw(st.integers(0, 5)))))
            files.append(p)
        if depth < 3:
            for _ in range(draw(st.integers(0, 2))):
                name = draw(st.sampled_from(DIR_NAMES))
                if name in used:
                    continue
                used.add(name)
                p = parent + '/' + name
                entries.append((p, 'dir', None))
                dirs.append(p)
                add_dir(p, depth + 1)
        return used

    entries.append(('work', 'dir', None))
    add_dir('work', 0)
    # an outside area, link free
    entries.append(('outside', 'dir', None))
    entries.append(('outside/lib', 'dir', None))
    out_files = []
    for name in ['ext.py', 'ext.txt', 'other.pyw']:
        if draw(st.booleans()):
            kind = draw(st.sampled_from(['shrinks', 'minimal', 'invalid', 'grows']))
            p = 'outside/lib/' + name
            entries.append((p, 'file', (kind, draw(st.integers(0, 5)))))
            out_files.append(p)
    # symlinks
    nlinks = draw(st.integers(0, 3))
    taken = set(e[0] for e in entries)
    for i in range(nlinks):
        parent = draw(st.sampled_from(dirs))
        r = draw(st.integers(0, 3))
        if r == 0:
            name = draw(st.sampled_from(['dangling.py', 'gone.pyw', 'broken.txt']))
            target = ('abs', 'nowhere/missing.py')
        elif r == 1:
            name = draw(st.sampled_from(['linkdir', 'vendored', 'l.py']))
            target = ('rel', 'outside/lib')
        else:
            cands = files + out_files
            if not cands:
                continue
            name = draw(st.sampled_from(['link.py', 'alias.pyw', 'link.txt', 'l2.py']))
            target = ('rel', draw(st.sampled_from(cands)))
        p = parent + '/' + name
        if p in taken:
            continue
        taken.add(p)
        entries.append((p, 'link', target))
    # arguments
    cands = [e[0] for e in entries if e[0].startswith('work')]
    args = draw(st.lists(st.sampled_from(cands + ['work/does_not_exist.py']), min_size=1, max_size=4))
    if draw(st.integers(0, 2)) == 0:
        args = ['work']
    flags = draw(cli.flag_subsets())
    if cli.documented_options(flags) is None or len(flags) > 6:
        flags = flags[:2] if cli.documented_options(flags[:2]) is not None else []
    mode = 'in-place' if draw(st.integers(0, 9)) < 7 else 'output'
    out_target = None
    if mode == 'output' and draw(st.integers(0, 9)) < 8:
        # the documented single-module form; the output path is new, an existing other file, or the input itself
        file_cands = [e[0] for e in entries if e[1] == 'file' and e[0].startswith('work')]
        if file_cands:
            args = [draw(st.sampled_from(file_cands))]
            out_target = draw(st.sampled_from(['new', 'new', 'existing', 'same']))
            if out_target == 'existing':
                out_target = 'existing:' + draw(st.sampled_from([e[0] for e in entries if e[1] == 'file']))
    return {'entries': entries, 'args': args, 'flags': flags, 'mode': mode, 'out_target': out_target}


def build(root, entries):
    for p, typ, payload in entries:
        full = os.path.join(root, p)
        if typ == 'dir':
            os.makedirs(full, exist_ok=True)
        elif typ == 'file':
            kind, i = payload
            data = CONTENTS[kind][i % len(CONTENTS[kind])]
            with open(full, 'wb') as f:
                f.write(data)
    for p, typ, payload in entries:
        if typ == 'link':
            full = os.path.join(root, p)
            how, t = payload
            os.symlink(os.path.join(root, t), full)


def snapshot(root):
    snap = {}
    for dp, dns, fns in os.walk(root, followlinks=False):
        for n in dns + fns:
            p = os.path.join(dp, n)
            rel = os.path.relpath(p, root)
            if os.path.islink(p):
                snap[rel] = ('link', os.readlink(p))
            elif os.path.isdir(p):
                snap[rel] = ('dir', None)
            else:
                with open(p, 'rb') as f:
                    snap[rel] = ('file', f.read())
    return snap


def expected_targets(root, args):
    """Independent walk: explicit non-directory arguments + .py/.pyw files below directory arguments, following links.
    Returned as a multiset (list) of absolute paths in argument order (order inside a directory is not asserted)."""
    out = []
    for a in args:
        p = os.path.join(root, a)
        if os.path.isdir(p):
            stack = [p]
            while stack:
                d = stack.pop()
                for n in sorted(os.listdir(d)):
                    q = os.path.join(d, n)
                    if os.path.isdir(q):
                        stack.append(q)
                    elif n.endswith('.py') or n.endswith('.pyw'):
                        out.append(q)
        else:
            out.append(p)
    return out


def E(data, opts):
    m = api.minify(data, opts).encode('utf-8')
    return m if len(m) <= len(data) else data


def oracle(case):
    tmp = tempfile.mkdtemp(prefix='vf_c15_')
    root = os.path.realpath(tmp)
    try:
        build(root, [tuple(e) for e in case['entries']])
        opts = cli.documented_options(case['flags'])
        args = [os.path.join(root, a) for a in case['args']]
        pre = snapshot(root)
        targets = expected_targets(root, case['args'])
        out_path = os.path.join(root, 'result_output.py')
        ot = case.get('out_target')
        if ot == 'same':
            out_path = args[0]
        elif ot and ot.startswith('existing:'):
            out_path = os.path.join(root, ot.split(':', 1)[1])
        out_rel = os.path.relpath(os.path.realpath(out_path), root) if os.path.exists(out_path) else os.path.relpath(out_path, root)
        argv = list(args) + list(case['flags'])
        if case['mode'] == 'in-place':
            argv.append('--in-place')
        else:
            argv += ['--output', out_path]
        status, out, err = cli.run_inprocess(argv)
        post = snapshot(root)
        info = {'argv': [a.replace(root, '<root>') for a in argv], 'status': status, 'stderr': err[-300:], 'stdout': out.decode('utf-8', 'replace').replace(root, '<root>')[:600]}

        # argument validation (documented): several paths or a directory need --in-place
        if case['mode'] == 'output' and (len(args) > 1 or os.path.isdir(args[0])):
            if status == 0:
                return ('invalid-arguments-accepted',), info
            if post != pre:
                return ('invalid-arguments-changed-tree',), info
            return None

        try:
            visited = [ln for ln in out.decode('utf-8').split('\n') if ln != '']
        except UnicodeDecodeError:
            return ('stdout-not-a-path-listing',), info
        tset = set(targets)
        for v in visited:
            if v not in tset:
                return ('visited-a-non-target', os.path.basename(v)), info

        # replay the listing against the model
        state = {}

        def realfile(p):
            return os.path.relpath(os.path.realpath(p), root)

        fault_at = None
        for i, v in enumerate(visited):
            try:
                key = realfile(v)
                cur = state.get(key)
                if cur is None:
                    kind, data = pre.get(key, (None, None))
                    if kind != 'file':
                        raise OSError('unreadable')
                    cur = data
                new = E(cur, opts)
            except BaseException:
                fault_at = i
                break
            if case['mode'] == 'in-place':
                state[key] = new
            else:
                state[out_rel] = new
        if fault_at is not None and fault_at != len(visited) - 1:
            return ('continued-after-a-fault',), info
        if fault_at is None and sorted(visited) != sorted(targets):
            # without a fault every target must have been visited exactly as often as it is reachable
            return ('visited-set-differs-from-targets',), dict(info, expected=[t.replace(root, '<root>') for t in targets])
        if (status == 0) != (fault_at is None):
            return ('exit-status-does-not-reflect-fault', status, fault_at is None), info

        # compare the tree
        for rel in set(pre) | set(post):
            a = pre.get(rel)
            b = post.get(rel)
            if rel in state:
                if b is None or b[0] != 'file':
                    return ('target-removed-or-retyped', os.path.basename(rel)), info
                if b[1] != state[rel]:
                    k = 'failing' if False else 'visited'
                    return ('target-content-not-E^k(pre)', os.path.splitext(rel)[1]), dict(info, file=rel, got=b[1][:200], want=state[rel][:200])
                continue
            if a is None:
                return ('file-created', os.path.basename(rel)), info
            if b is None:
                return ('file-deleted', os.path.basename(rel)), info
            if a != b:
                return ('untouchable-file-modified', os.path.splitext(rel)[1] or os.path.basename(rel)), dict(info, file=rel, before=a[1][:200] if a[1] else a[1], after=b[1][:200] if b[1] else b[1])
        return None
    finally:
        shutil.rmtree(tmp, ignore_errors=True)


def replay(case):
    return oracle(case)


def classify(case):
    """Fault kind x position classes and the non-trivial rule (computed on a throw-away build)."""
    tmp = tempfile.mkdtemp(prefix='vf_c15c_')
    root = os.path.realpath(tmp)
    try:
        build(root, [tuple(e) for e in case['entries']])
        targets = expected_targets(root, case['args'])
        pre = snapshot(root)
        real = [os.path.relpath(os.path.realpath(t), root) for t in targets]
        non_targets = [r for r, (k, _) in pre.items() if k == 'file' and r not in set(real)]
        classes = ['mode:' + case['mode']]
        faults = []
        opts = cli.documented_options(case['flags'])
        for i, (t, r) in enumerate(zip(targets, real)):
            k = pre.get(r, (None, None))
            why = None
            if k[0] != 'file':
                why = 'unreadable'
            else:
                try:
                    api.minify(k[1], opts)
                except SyntaxError:
                    why = 'unparsable'
                except ValueError:
                    why = 'nul-or-value'
                except BaseException as e:
                    why = type(e).__name__
            if why:
                faults.append((i, why))
        linked = any(os.path.islink(t) or '/linkdir/' in t or '/vendored/' in t or '/l.py/' in t for t in targets) or len(set(real)) < len(real)
        if faults:
            # position of the first fault in argument-order terms is only indicative; the listing decides the real order
            i, why = faults[0]
            pos = 'first' if i == 0 else ('last' if i == len(targets) - 1 else 'middle')
            classes.append('fault:%s:%s' % (why, pos))
        else:
            classes.append('fault:none')
        if linked:
            classes.append('symlinked-or-duplicated-target')
        nontrivial = len(targets) >= 3 and len(non_targets) >= 1 and ((faults and faults[0][0] != 0) or linked)
        return classes, nontrivial, len(targets)
    finally:
        shutil.rmtree(tmp, ignore_errors=True)


def shard(ctx):
    def prop(case):
        classes, nontrivial, ntargets = classify(case)
        r = oracle(case)
        ctx.case(sha(case['entries'], case['args'], case['flags'], case['mode']), nontrivial, classes=classes,
                 sample={'entries': [(e[0], e[1], e[2][0] if e[1] == 'file' else e[2]) for e in case['entries']][:25], 'args': case['args'], 'flags': case['flags'], 'mode': case['mode']})
        if r is not None:
            ctx.fail(case, r[0], r[1])

    hyp_run(ctx, 'trees', trees(), prop, ctx.n(5000, 120000))

    # a sample through a real subprocess
    def prop_sub(case):
        tmp = tempfile.mkdtemp(prefix='vf_c15s_')
        root = os.path.realpath(tmp)
        try:
            build(root, [tuple(e) for e in case['entries']])
            argv = [os.path.join(root, a) for a in case['args']] + list(case['flags']) + ['--in-place']
            s1, o1, e1 = cli.run_subprocess(argv)
            post_sub = snapshot(root)
        finally:
            shutil.rmtree(tmp, ignore_errors=True)
        tmp = tempfile.mkdtemp(prefix='vf_c15s_')
        root2 = os.path.realpath(tmp)
        try:
            build(root2, [tuple(e) for e in case['entries']])
            argv = [os.path.join(root2, a) for a in case['args']] + list(case['flags']) + ['--in-place']
            s2, o2, e2 = cli.run_inprocess(argv)
            post_in = snapshot(root2)
        finally:
            shutil.rmtree(tmp, ignore_errors=True)
        ctx.case(sha('sub', case['entries'], case['args'], case['flags']), True, classes=['subprocess-vs-inprocess'])
        norm = lambda snap, r: {k: (t, v.replace(r, '<root>') if t == 'link' else v) for k, (t, v) in snap.items()}
        if (s1 == 0) != (s2 == 0) or norm(post_sub, root) != norm(post_in, root2) or o1.replace(root.encode(), b'') != o2.replace(root2.encode(), b''):
            ctx.fail(dict(case, mode='in-place'), ('subprocess-differs-from-inprocess',), {'status': (s1, s2)})

    hyp_run(ctx, 'sub', trees().filter(lambda c: c['mode'] == 'in-place'), prop_sub, ctx.n(64, 1500), shrink=False)
