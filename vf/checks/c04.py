"""C04 - externally visible names are never changed."""
from hypothesis import strategies as st

from .. import api, fleet
from ..gen import progs
from ..oracle import scopecheck
from ..runner import hyp_run, sha
from .c03 import _minify

ID = 'C04'
LEVEL = 'exploration'
RULE = ('Programs from vf.gen.progs (methods with every decorator shape and any first parameter name, keyword-callable / positional-only / '
        'keyword-only / * / ** parameters, lambdas with all parameter kinds, class bodies with every binding form, nested classes, keyword '
        'arguments at call sites and in class headers, dotted/aliased/relative imports, dunder names, MatchClass keyword patterns, names used but '
        'never bound) x option sets over all 18 switches (corners + uniform). Oracle over the lock-step alignment of the un-renamed baseline and '
        'the output (aliases validated and inlined): attribute names, keyword names, imported module/member names, ImportFrom module+level, '
        'MatchClass keyword attributes must be equal; binding-related identifiers must be equal when they are dunder names, unbound names, names '
        'stored in a class body, lambda parameters (except * / ** / positional-only) or def parameters that a caller can pass by keyword - except '
        'the documented exception: the first parameter of a def directly in a class body with no decorator or exactly @classmethod. Module '
        'level: with rename_globals off bound(output) >= bound(input) and every new name starts with "_"; with it on, literal __all__ entries keep '
        'their spelling. Parameter kinds are read with the positional-only marker kept; that the convert_posargs_to_args output differs from it '
        'only by the marker is checked separately. Non-trivial: >= 1 class with a method, >= 1 keyword call, and some binding was renamed. '
        'Distinct = sha256(source, options).')
ASSUMPTIONS = ['alignment assumes the non-renaming transforms keep statement order (C05 checks them)',
               'a name that a class body only ever deletes is not an attribute']


def oracle(case):
    r = scopecheck.analyse(case['source'], case['opts'], _minify)
    if r['status'] == 'violation':
        return tuple(r['signature']), r['detail']
    if r['status'] == 'ok':
        bad = scopecheck.check_interface(r, case['opts'])
        if bad:
            return tuple(bad[0]), {'what': bad[1], 'out': r['out'][:1500]}
    return None


def replay(case):
    if case.get('interp'):
        return fleet.replay_on(case['interp'], {'op': 'scopes', 'src': case['source'], 'opts': case['opts'], 'interface': True})
    return oracle(case)


def shard(ctx):
    def prop(case):
        prog, opts = case
        r = scopecheck.analyse(prog.source, opts, _minify)
        if r['status'] in ('domain', 'raises'):
            ctx.note('not_evaluable:' + r['status'])
            ctx.evaluations += 1
            return
        c = {'source': prog.source, 'opts': opts}
        if r['status'] == 'violation':
            ctx.case(sha(prog.source, api.opts_key(opts)), True, classes=['violating'])
            ctx.fail(c, tuple(r['signature']), r['detail'])
            return
        bad = scopecheck.check_interface(r, opts)
        feats = set(prog.features)
        nt = bool(r['renamed']) and ('method' in feats or 'class' in feats or 'class_in_function' in feats) and 'kwcall' in feats
        ctx.case(sha(prog.source, api.opts_key(opts)), nt, classes=['f:' + f for f in prog.features] + (['renamed'] if r['renamed'] else []) + (['rename_globals'] if opts['rename_globals'] else []),
                 sample={'source': prog.source[:400], 'options_on': api.on_list(opts), 'renamed': r['renamed'][:6]})
        if bad:
            ctx.fail(c, tuple(bad[0]), {'what': bad[1], 'out': r['out'][:1500]})

    strat = st.tuples(st.one_of(progs.programs(profile='shape'), progs.programs(profile='shape', level=(3, 12)), progs.programs(profile='syntax')), api.option_sets())
    hyp_run(ctx, 'iface', strat, prop, ctx.n(4000, 150000))

    wv = ['3.11', '3.8', '3.9', '3.10', '3.13', '3.11', '3.10', '3.9'][ctx.index % 8]
    if fleet.interpreter_path(wv) is None:
        ctx.note('interpreter_missing:' + wv)
        return
    w = fleet.get_worker(wv)

    def prop_w(case):
        prog, opts = case
        f = fleet.src_fields(prog.source)
        if f is None:
            return
        req = {'op': 'scopes', 'opts': opts, 'interface': True}
        req.update(f)
        rep = w.call(req)
        if rep.get('timeout') or rep.get('worker_died'):
            ctx.note('worker_timeout_or_death:' + wv)
            return
        if 'harness_error' in rep:
            raise RuntimeError('worker %s: %s' % (wv, rep['harness_error']))
        if rep.get('resolver_disagrees_with_symtable'):
            raise RuntimeError('resolver disagrees with symtable (harness bug): %r on %r' % (rep['resolver_disagrees_with_symtable'], prog.source))
        if rep['status'] in ('domain', 'raises'):
            ctx.evaluations += 1
            return
        ctx.case(sha(prog.source, api.opts_key(opts), wv), bool(rep.get('renamed')), classes=['interp:' + wv])
        if rep['status'] == 'violation':
            ctx.fail({'source': prog.source, 'opts': opts, 'interp': wv}, tuple(rep['signature']) + (wv,), rep['detail'])

    hyp_run(ctx, 'w' + wv, st.tuples(progs.programs(profile='shape', level=fleet.level_of(wv)), api.option_sets()), prop_w, ctx.n(1200, 50000))
