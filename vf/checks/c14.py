"""C14 - the command line tool never emits more bytes than it was given."""
import os
import shutil
import tempfile

from hypothesis import strategies as st

from .. import api, cli
from ..gen import progs
from ..runner import hyp_run, sha

ID = 'C14'
LEVEL = 'exploration'
RULE = ('Byte sources generated to sit on both sides of the size rule (empty and tiny files, already-minified output of a '
        'previous run, sources whose UTF-8 minified form grows: NUL escapes, Latin-1/cp1252/Shift-JIS cookie files with many '
        'non-ASCII characters; modules assembled from 1-4 small statements that individually grow, cost a byte when hoisted, stay or shrink; CR/CRLF files, shebang-only and comment-only files, generated programs that shrink) x flag subsets '
        'x output mode in {path->stdout, path->--output, --in-place, stdin->stdout, stdin->--output} x PYMINIFY_FORCE_BEST_EFFORT in '
        '{unset, "", "1"}. Oracle: with M = utf8(minify(S, **documented(F))): override unset/empty => written == (M if len(M) <= len(S) else S), '
        'hence len(written) <= len(S); override set => written == M. Non-trivial: len(M) > len(S) (the fallback must engage) or the override is set; '
        'shrinking cases are counted separately per output mode. Distinct = sha256(source, flags, mode, override).')
ASSUMPTIONS = ['in-process CLI invocation with patched argv/stdio (plus a subprocess sample)', 'the API result is the reference for M']

TINY = [b'', b'\n', b'x', b'x=1', b'x = 1', b'pass', b'0', b'1\n', b"''", b'#', b'# only a comment\n', b'#!/bin/sh\n', b'#!/usr/bin/env python\n# c\n',
        b'a=1;b=2', b'a=1\nb=2\n', b'def f():return 1', b'if x:\n pass', b"x='\\0'", b'x="\\0\\0\\0"', b"x=b'\\0'", b'x=1e5', b'x=100000.0', b'x=0x10',
        b'\xef\xbb\xbfx=1', b'x=1\r\ny=2\r\n', b'x=1\ry=2\r', b'import a\nimport b', b'import a,b', b'lambda:0', b'x="\xc3\xa9"', b"x='\\n'", b'x=(1,)', b'x=1,',
        b'def f(a,/):pass', b'class A(object):pass', b'class A:pass', b'raise ValueError()', b'raise ValueError', b'x=1+1', b'x=2', b'print(f"{1}")',
        b'x=-1', b'x=- 1', b"x='\\x00\\x01\\x02\\x03'", b'x="\\0"*2']
CODECS = [('latin-1', '\xe9\xe8\xfc'), ('cp1252', '\u20ac\u201c\u0153'), ('shift_jis', '\u3042\u3044\u30a2'), ('iso-8859-15', '\u20ac\xe9'),
          ('koi8-r', '\u0434\u0430'), ('euc-jp', '\u3042\u6f22'), ('utf-8', '\xe9\u3042\U0001f600')]
MODES = ['path-stdout', 'path-output', 'in-place', 'stdin-stdout', 'stdin-output']


@st.composite
def sources(draw):
    src, kind = draw(_sources())
    # a UTF-8 BOM in front of anything that is UTF-8 (the BOM counts as source bytes; the minified body may grow by 1-3 bytes)
    if draw(st.integers(0, 5)) == 0 and not src.startswith(b'\xef\xbb\xbf') and b'coding' not in src[:60]:
        try:
            src.decode('utf-8')
            return b'\xef\xbb\xbf' + src, kind + '+bom'
        except UnicodeDecodeError:
            pass
    return src, kind


# small statements on either side of the size rule: ones the minifier cannot print as compactly as they are written (it puts a space
# after a number, spells NUL as \\x00), ones where hoisting a literal used two or three times costs a byte, neutral and shrinking ones.
# A module is 1-4 of them: the sum decides whether the fallback must engage, whatever intermediate results the tool computes.
PIECES = [b'0in x', b'1if x else 2', b'x=1if y else 2', b'[0for i in y]', b"x='\\0'", b'x="\\0\\0"', b"def f():return'abc','abc'", b"def g():return'ab','ab','ab'",
          b"def k():return b'xy',b'xy'", b'def m():return 1.5,1.5', b'def n():return None,None,None', b'def p():return True,True', b'def q():return 1000,1000',
          b"s='ab','ab'", b'y=1000,1000', b'x=1', b'pass', b'import a\nimport b', b'def h(a):return a', b'z=(1,)', b'def r(argument):return argument',
          b"def t():\n x='abcd'\n return x,'abcd'", b'class A(object):pass', b'x = 1', b"def u():return'a','a','a','a'", b'def v():return 1e3,1e3', b"w=f'{a}'",
          b"def f2():return'abcde','abcde'", b'def f3(a,/):return a', b'raise E()', b'0', b"''"]


@st.composite
def _sources(draw):
    r = draw(st.integers(0, 11))
    if r >= 10:
        parts = draw(st.lists(st.sampled_from(PIECES), min_size=1, max_size=4))
        return draw(st.sampled_from([b'\n', b'\n', b';'])).join(parts) if not any(p.startswith((b'def', b'class', b'import')) and b'\n' in p for p in parts) else b'\n'.join(parts), 'pieces'
    if r < 3:
        return draw(st.sampled_from(TINY)), 'tiny'
    if r < 5:
        codec, chars = draw(st.sampled_from(CODECS))
        n = draw(st.integers(0, 40))
        body = ''.join(draw(st.sampled_from(chars)) for _ in range(n))
        cookie = draw(st.sampled_from(['# coding: %s\n', '# -*- coding: %s -*-\n', '#coding=%s\n', '#!/bin/sh\n# vim: set fileencoding=%s :\n']))
        if codec == 'utf-8' and draw(st.booleans()):
            cookie = ''
        name = draw(st.sampled_from(['x', 'value', 'a_rather_long_variable_name']))
        text = (cookie % codec if '%s' in cookie else cookie) + "%s='%s'" % (name, body) + draw(st.sampled_from(['', '\n', '\r\n']))
        return text.encode(codec), 'codec:' + codec
    if r < 7:
        prog = draw(progs.programs(profile='shape', level=(3, 12), size=draw(st.sampled_from([2, 4, 8]))))
        return prog.source.encode('utf-8', 'backslashreplace'), 'generated'
    if r < 9:
        # already-minified output of a previous run: the idempotence boundary
        prog = draw(progs.programs(profile='syntax', level=(3, 12), size=draw(st.sampled_from([2, 4, 8]))))
        try:
            m = api.minify(prog.source, draw(api.option_sets())).encode('utf-8')
        except BaseException:
            m = b'x=1'
        return m, 'preminified'
    k = draw(st.integers(1, 30))
    return draw(st.sampled_from([b"x='" + b'\\0' * k + b"'", b'x=' + b'1' * k + b'.0', b'x=' + b'0' * k + b'1' if False else b'x=1' + b'0' * k, b'#' * k,
                                 b'x = ' + b'(' * min(k, 8) + b'1' + b')' * min(k, 8), b'pass\n' * k, b'"""' + b'd' * k + b'"""'])), 'boundary'


def oracle(case):
    source = case['source']
    flags = case['flags']
    mode = case['mode']
    force = case.get('force')  # None, '' or '1'
    how = case.get('how', 'inprocess')
    opts = cli.documented_options(flags)
    if opts is None:
        return None
    try:
        M = api.minify(source, opts).encode('utf-8')
        api_exc = None
    except BaseException as e:
        M = None
        api_exc = type(e).__name__
    tmp = tempfile.mkdtemp(prefix='vf_c14_')
    try:
        src_path = os.path.join(tmp, 'module_under_test.py')
        out_path = os.path.join(tmp, 'result.py')
        argv = list(flags)
        stdin = b''
        if mode.startswith('stdin'):
            argv = ['-'] + argv
            stdin = source
        else:
            with open(src_path, 'wb') as f:
                f.write(source)
            argv = [src_path] + argv
        if mode.endswith('output'):
            argv += ['--output', out_path]
        if mode == 'in-place':
            argv += ['--in-place']
        if how == 'inprocess':
            status, out, err = cli.run_inprocess(argv, stdin, force_env=force)
        else:
            status, out, err = cli.run_subprocess(argv, stdin, force_env=force)
        if mode.endswith('output'):
            written = open(out_path, 'rb').read() if os.path.exists(out_path) else None
        elif mode == 'in-place':
            written = open(src_path, 'rb').read()
        else:
            written = out
        if api_exc is not None:
            if status == 0:
                return ('api-raises-cli-succeeds', api_exc, mode), {'written': repr(written)[:200]}
            if mode == 'in-place' and written != source:
                return ('failed-run-modified-file', mode), {}
            if mode.endswith('output') and written is not None:
                return ('failed-run-created-output', mode), {}
            if mode.endswith('stdout') and out:
                return ('failed-run-wrote-stdout', mode), {'stdout': out[:200]}
            return None
        if status != 0:
            return ('cli-fails-api-succeeds', mode), {'status': status, 'stderr': err[-300:]}
        if force:
            expected = M
        else:
            expected = M if len(M) <= len(source) else source
        if written is None:
            return ('nothing-written', mode), {}
        if not force and len(written) > len(source):
            return ('emitted-more-bytes-than-read', mode), {'read': len(source), 'written': len(written), 'out': written[:200]}
        if written != expected:
            return ('written-differs-from-size-rule', mode, 'fallback' if len(M) > len(source) else 'minified'), {'expected': expected[:300], 'written': written[:300]}
        return None
    finally:
        shutil.rmtree(tmp, ignore_errors=True)


def replay(case):
    return oracle(case)


def shard(ctx):
    @st.composite
    def cases(draw):
        (src, kind) = draw(sources())
        flags = draw(cli.flag_subsets())
        if cli.documented_options(flags) is None:
            flags = [f for f in flags if f != '--no-remove-annotations']
        return {'source': src, 'flags': flags, 'mode': draw(st.sampled_from(MODES)),
                'force': draw(st.sampled_from([None, None, None, '', '1'])), 'kind': kind}

    def prop(c):
        r = oracle(c)
        try:
            M = api.minify(c['source'], cli.documented_options(c['flags'])).encode('utf-8')
            rel = 'grows' if len(M) > len(c['source']) else ('equal' if len(M) == len(c['source']) else 'shrinks')
        except BaseException:
            rel = 'api-raises'
        site = '%s/%s' % (c['mode'], 'fallback' if rel == 'grows' else rel)
        ctx.case(sha(c['source'], c['flags'], c['mode'], c['force'], c.get('how')), rel == 'grows' or bool(c['force']),
                 classes=['kind:' + c['kind'], 'site:' + site, 'force:' + repr(c['force'])],
                 sample={'source': repr(c['source'][:120]), 'flags': c['flags'], 'mode': c['mode'], 'force': c['force'], 'relation': rel})
        if r is not None:
            ctx.fail(c, r[0], r[1])

    hyp_run(ctx, 'gen', cases(), prop, ctx.n(4000, 100000))

    def prop_sub(c):
        c = dict(c)
        c['how'] = 'subprocess'
        prop(c)

    hyp_run(ctx, 'sub', cases(), prop_sub, ctx.n(160, 3000), shrink=False)
