"""C17 - turning a size optimisation on never makes the output longer (over a pinned corpus of real modules)."""
import random

from .. import api, corpus
from ..runner import sha

ID = 'C17'
LEVEL = 'exploration'
RULE = ('Pinned corpus: modules of the CPython 3.12.1 standard library (top level and packages, < 40 KB, sha256 pinned in corpus/manifest.json). '
        'For each module S, each of the 11 size options o and each base in {all off, defaults minus o}: len(minify(S, base+o)) <= len(minify(S, base)). '
        'Quick: a seed-chosen sample of files; thorough: every file (exhaustive over the pinned corpus). '
        'Non-trivial: the option changed the output for that file and base. Distinct = sha256(file sha, option, base).')
ASSUMPTIONS = ['length is measured in characters of the returned string, as the property states', 'files whose hash differs from the manifest are skipped and counted']

SIZE_OPTIONS = ['combine_imports', 'remove_pass', 'remove_annotations', 'remove_object_base', 'remove_builtin_exception_brackets',
                'remove_explicit_return_none', 'convert_posargs_to_args', 'hoist_literals', 'rename_locals', 'rename_globals', 'constant_folding']
ANN_DEFAULT_ON = ['remove_variable_annotations', 'remove_return_annotations', 'remove_argument_annotations']


def with_option(base, o, value):
    d = dict(base)
    if o == 'remove_annotations':
        for k in ANN_DEFAULT_ON:
            d[k] = value
    else:
        d[o] = value
    return d


def bases(o):
    off = dict(api.ALL_OFF)
    dflt = dict(api.DEFAULTS)
    return [('all-off', with_option(off, o, False)), ('default-minus-o', with_option(dflt, o, False))]


def oracle(case):
    data = case.get('source')
    if data is None:
        for e in corpus.manifest():
            if e['path'] == case['file']:
                data = corpus.load(e)
        if data is None:
            return None
    o = case['option']
    for bname, base in bases(o):
        if bname != case['base']:
            continue
        try:
            a = api.minify(data, base)
            b = api.minify(data, with_option(base, o, True))
        except BaseException:
            return None  # C08's business
        if len(b) > len(a):
            return ('longer-with-option', o, bname, case['file'].split('lib/python3.12/')[-1]), {'off': len(a), 'on': len(b), 'delta': len(b) - len(a)}
    return None


def replay(case):
    return oracle(case)


def shard(ctx):
    files = corpus.files(groups=['stdlib312'], max_size=40000)
    if ctx.tier == 'quick':
        rnd = random.Random(ctx.seed)
        files = sorted(files, key=lambda e: e['path'])
        rnd.shuffle(files)
        files = files[:max(16, int(260 * float(__import__('os').environ.get('VERIF_SCALE', '1'))))]
    mine = corpus.shard_slice(files, ctx.index, ctx.nshards)
    saved = {}
    worst = {}
    for e in mine:
        data = corpus.load(e)
        if data is None:
            ctx.note('corpus_file_changed_or_missing')
            continue
        for o in SIZE_OPTIONS:
            for bname, base in bases(o):
                try:
                    a = api.minify(data, base)
                    b = api.minify(data, with_option(base, o, True))
                except BaseException:
                    ctx.note('minify_raises(C08)')
                    continue
                changed = a != b
                ctx.case(sha(e['sha256'], o, bname), changed, classes=['option:' + o] + (['changed:' + o] if changed else []),
                         sample={'file': e['path'], 'option': o, 'base': bname, 'len_off': len(a), 'len_on': len(b)})
                saved[o] = saved.get(o, 0) + len(a) - len(b)
                if len(b) > len(a):
                    worst[o] = max(worst.get(o, 0), len(b) - len(a))
                    c = {'file': e['path'], 'option': o, 'base': bname}
                    ctx.fail_direct(c, ('longer-with-option', o, bname, e['path'].split('lib/python3.12/')[-1]), {'off': len(a), 'on': len(b), 'delta': len(b) - len(a)})
    ctx.extra['chars_saved_by_option'] = saved
    ctx.extra['worst_regression_by_option'] = worst
    ctx.extra['files'] = len(mine)


def parent_post(tier, seed, merged):
    return {'exhaustive': tier == 'thorough', 'corpus_files_total': len(corpus.files(groups=['stdlib312'], max_size=40000))}
