"""C10 - names the user asks to preserve are preserved."""
import ast
import python_minifier

from hypothesis import strategies as st

from .. import api, cli, fleet
from ..gen import progs
from ..oracle import scopecheck, scopes
from ..runner import hyp_run, sha
from .c03 import _minify

ID = 'C10'
LEVEL = 'exploration'
RULE = ('Generated scope-shape programs; preserve_locals / preserve_globals drawn from the program\'s own names (bound locally, globally, in several '
        'scopes, builtin names, parameter names), absent names and duplicates; passed as list, single string, None or empty list; a literal '
        '__all__ planted in one of its three forms (plain, augmented, annotated; with non-string elements mixed in); awslambda(entrypoint=...); '
        'the CLI spellings (--preserve-locals a,b --preserve-locals " c ,,d") through the in-process CLI (stdin, and one --in-place invocation over 2-3 module files: the lists apply to every module); x option sets. '
        'Oracle: with the independent resolver over the aligned baseline/output pair every binding whose name is in the effective preserve set '
        'for its kind (function-scope bindings for preserve_locals; module-level bindings for preserve_globals, __all__ strings and the entrypoint) '
        'keeps its spelling at every occurrence; the output stays alpha-equivalent to the un-renamed baseline (preserving changes nothing but '
        'identifiers); metamorphic: adding an absent long name leaves the output byte-identical; [] == None == list of absent names; a single '
        'string == one-element list; order and duplicates do not matter. Non-trivial: without the preserve list at least one binding named in it '
        'is renamed. Distinct = sha256(source, options, lists).')
ASSUMPTIONS = ['kinds (local vs global binding) decided by the independent resolver']

ABSENT = ['absent_name_one', 'never_used_identifier']


def module_names(src):
    try:
        r = scopes.Resolver(api.parse(src))
    except BaseException:
        return [], []
    glob = sorted(n for n in r.module_bound if not n.startswith('__'))
    loc = sorted(set(n for s in r.scopes if s.kind != 'module' for n in s.bound))
    return glob, loc


def renamed_without(src, opts):
    r = scopecheck.analyse(src, opts, _minify)
    if r['status'] != 'ok':
        return None
    return r


def oracle(case):
    src = case['source']
    opts = case['opts']
    pl = case.get('pl')
    pg = case.get('pg')
    mode = case.get('mode', 'api')

    def mini(s, o, l, g):
        kw = {}
        if l is not None:
            kw['preserve_locals'] = list(l) if isinstance(l, (list, tuple)) else l
        if g is not None:
            kw['preserve_globals'] = list(g) if isinstance(g, (list, tuple)) else g
        return api.minify(s, o, **kw)

    if mode == 'awslambda':
        entry = case['entry']
        o = dict(api.DEFAULTS, remove_literal_statements=True, rename_globals=entry is not None)
        try:
            fn = case.get('filename')
            got = python_minifier.awslambda(src, entrypoint=entry) if fn is None else python_minifier.awslambda(src, filename=fn, entrypoint=entry)
            want = api.minify(src, o, preserve_globals=[entry])
        except BaseException:
            return None
        if got != want:
            return ('awslambda-differs-from-documented-minify-call',), {'got': got[:600], 'want': want[:600]}
        opts, pl, pg = o, None, [entry] if entry else []
    r = scopecheck.analyse(src, opts, mini, pl if not isinstance(pl, str) else [pl], pg if not isinstance(pg, str) else [pg])
    if r['status'] == 'violation':
        return tuple(r['signature']), r['detail']
    if r['status'] != 'ok':
        return None
    lpl = [pl] if isinstance(pl, str) else (pl or [])
    lpg = [pg] if isinstance(pg, str) else (pg or [])
    bad, what, hits = scopecheck.check_preserved(r, lpl if opts.get('rename_locals') else [], lpg if opts.get('rename_globals') else [])
    if bad:
        return bad, {'what': what, 'out': r['out'][:1200]}
    if mode == 'awslambda':
        return None
    # metamorphic relations on the list argument
    try:
        base = mini(src, opts, lpl, lpg)
        if isinstance(pl, str) or isinstance(pg, str):
            if mini(src, opts, pl, pg) != base:
                return ('single-string-differs-from-one-element-list',), {}
        if mini(src, opts, lpl + ABSENT, lpg + ABSENT) != base:
            return ('absent-name-changes-output',), {}
        if mini(src, opts, list(reversed(lpl)) + lpl, list(reversed(lpg)) + lpg) != base:
            return ('order-or-duplicates-change-output',), {}
        if not lpl and not lpg:
            if not (mini(src, opts, None, None) == mini(src, opts, [], []) == mini(src, opts, list(ABSENT), list(ABSENT))):
                return ('none-empty-absent-differ',), {}
    except BaseException as e:
        return ('metamorphic-call-raises', type(e).__name__), str(e)[:200]
    if mode == 'cli':
        argv = ['-']
        for k in api.SWITCHES:
            pass
        flags = [f for f, opt, val in cli.FLAGS if opt != '*annotations' and opts.get(opt, api.DEFAULTS[opt]) == val and api.DEFAULTS.get(opt) != val]
        spelled_l = case.get('cli_pl') or []
        spelled_g = case.get('cli_pg') or []
        for v in spelled_l:
            flags += ['--preserve-locals', v]
        for v in spelled_g:
            flags += ['--preserve-globals', v]
        status, out, err = cli.run_inprocess(argv + flags, src.encode('utf-8'), force_env='1')
        try:
            want = mini(src, cli.documented_options([f for f in flags if f.startswith('--') and f in cli.FLAG_NAMES]), cli.split_preserve(spelled_l), cli.split_preserve(spelled_g))
        except BaseException:
            return None
        if status != 0 or out != want.encode('utf-8'):
            return ('cli-preserve-spelling-differs-from-api',), {'argv': flags, 'cli': out[:400], 'api': want[:400]}
        if case.get('multi'):
            # one invocation over several modules: the preserve lists apply to every one of them
            import os
            import shutil
            import tempfile
            d = tempfile.mkdtemp(prefix='vf_c10_')
            try:
                paths = []
                for i in range(case['multi']):
                    pth = os.path.join(d, 'module_%d.py' % i)
                    with open(pth, 'wb') as f:
                        f.write(src.encode('utf-8'))
                    paths.append(pth)
                status, out, err = cli.run_inprocess(paths + flags + ['--in-place'], b'', force_env='1')
                for i, pth in enumerate(paths):
                    with open(pth, 'rb') as f:
                        got = f.read()
                    if status != 0 or got != want.encode('utf-8'):
                        return ('cli-preserve-lost-on-later-module', 'module %d of %d' % (i + 1, len(paths))), {'argv': flags, 'status': status, 'stderr': err[:200], 'cli': got[:400], 'api': want[:400]}
            finally:
                shutil.rmtree(d, ignore_errors=True)
    return None


def replay(case):
    return oracle(case)


@st.composite
def cases(draw):
    prog = draw(st.one_of(progs.programs(profile='shape', level=(3, 12)), progs.programs(profile='shape')))
    src = prog.source
    glob, loc = module_names(src)
    # plant a literal __all__
    r = draw(st.integers(0, 5))
    if r < 3 and glob:
        names = draw(st.lists(st.sampled_from(glob + ['absent_export']), min_size=1, max_size=3))
        elems = [repr(n) for n in names]
        if draw(st.booleans()):
            elems.insert(draw(st.integers(0, len(elems))), draw(st.sampled_from(['5', 'None', 'b"x"', 'other_name'])))
        form = ['__all__ = [%s]', '__all__ += [%s]', '__all__: list = [%s]'][r]
        stmt = form % ', '.join(elems)
        lines = src.split('\n')
        pos = 0
        tree = api.parse(src)
        for st_ in tree.body:
            if (isinstance(st_, ast.Expr) and isinstance(st_.value, ast.Constant) and isinstance(st_.value.value, str) and pos == 0) or \
                    (isinstance(st_, ast.ImportFrom) and st_.module == '__future__'):
                pos = st_.end_lineno
            else:
                break
        lines.insert(pos, stmt)
        src = '\n'.join(lines)
    pool_l = (loc or ['x']) + ['len', 'absent_local']
    pool_g = (glob or ['x']) + ['print', 'absent_global']
    pl = draw(st.one_of(st.none(), st.lists(st.sampled_from(pool_l), max_size=3), st.sampled_from(pool_l)))
    pg = draw(st.one_of(st.none(), st.lists(st.sampled_from(pool_g), max_size=3), st.sampled_from(pool_g)))
    opts = draw(api.option_sets())
    if draw(st.integers(0, 3)) > 0:
        opts['rename_locals'] = True
        opts['rename_globals'] = draw(st.booleans())
    mode = draw(st.sampled_from(['api', 'api', 'api', 'cli', 'awslambda']))
    c = {'source': src, 'opts': opts, 'pl': pl, 'pg': pg, 'mode': mode, 'features': prog.features}
    if mode == 'awslambda':
        # the file name is only used for messages; whatever it is, the entrypoint is what is preserved
        c['filename'] = draw(st.sampled_from([None, 'index.py', 'lambda_function.py', 'app.py', 'handler.py', 'helper_func.py', 'alpha_value.counter_total.py', '/var/task/result_list.py', 'x']))
        c['entry'] = draw(st.sampled_from(glob + [None, 'handler'])) if glob else None
    if mode == 'cli':
        def spell(lst):
            if not lst:
                return []
            if isinstance(lst, str):
                lst = [lst]
            k = draw(st.integers(0, 4))
            if k == 0:
                return [','.join(lst)]
            if k == 3:
                # whitespace next to an inner comma: every name is stripped on its own, not the value as a whole
                return [', '.join(lst + [lst[0]])]
            if k == 4:
                return [' ,\t'.join(lst + [lst[0]]) + ' ']
            if k == 1:
                return [' %s ' % x for x in lst]
            return [',,'.join(lst) + ',', ' ' + lst[0]]
        c['multi'] = draw(st.sampled_from([0, 2, 3]))
        c['cli_pl'] = spell(pl)
        c['cli_pg'] = spell(pg)
        c['opts'] = cli.documented_options([f for f, opt, val in cli.FLAGS if opt != '*annotations' and opts.get(opt) == val and api.DEFAULTS.get(opt) != val])
    return c


def shard(ctx):
    def prop(c):
        if api.compiles(c['source']) is not None:
            ctx.note('planted __all__ broke the program')
            return
        r = oracle(c)
        lpl = [c['pl']] if isinstance(c['pl'], str) else (c['pl'] or [])
        lpg = [c['pg']] if isinstance(c['pg'], str) else (c['pg'] or [])
        nt = False
        if c['mode'] != 'awslambda':
            base = renamed_without(c['source'], c['opts'])
            if base is not None:
                renamed_names = set(a for a, b in base['renamed'])
                nt = bool(renamed_names & (set(lpl) | set(lpg) | set(scopecheck.literal_all(api.parse(c['source'])))))
        else:
            nt = c.get('entry') is not None
        ctx.case(sha(c['source'], api.opts_key(c['opts']), repr(c['pl']), repr(c['pg']), c['mode']), nt,
                 classes=['mode:' + c['mode'] + ('-multi' if c.get('multi') else ''), 'pl:' + type(c['pl']).__name__, 'pg:' + type(c['pg']).__name__] + (['__all__'] if '__all__' in c['source'] else []) + (['preserve-bites'] if nt else []),
                 sample={'source': c['source'][:300], 'preserve_locals': c['pl'], 'preserve_globals': c['pg'], 'mode': c['mode'], 'options_on': api.on_list(c['opts'])})
        if r is not None:
            ctx.fail({k: v for k, v in c.items() if k != 'features'}, tuple(r[0]), r[1])

    hyp_run(ctx, 'preserve', cases(), prop, ctx.n(3000, 100000))
