"""C07 - constant folding never changes a value, its type, or an error."""
from hypothesis import strategies as st

import python_minifier

from .. import api, fleet
from ..gen import foldexprs
from ..oracle import foldcheck
from ..runner import hyp_run, sha

ID = 'C07'
LEVEL = 'exploration'
RULE = ('Literal-only arithmetic trees (13 binary operators incl. /, ** and @, unary - + ~ not; leaves: adversarial ints, floats incl. inf and '
        'denormals, imaginary literals, bools, None, str, bytes; depth <= 4; powers/shifts/repeats bounded for memory) placed in ~37 syntactic '
        'contexts (assignment, call argument, keyword, subscript, slice, default, decorator, return, f-string, comprehension, attribute base, '
        'unary/power operand, compare chain, dict key, lambda, assert, match subject...). Each module holds 1-6 such expressions and is minified with '
        'constant_folding only and with the defaults minus hoist_literals (hoisting would replace the literals by names; its interplay is C06/C01), on the host and (a share) inside every other installed interpreter incl. 2.7. '
        'Oracle (independent, inside the interpreter under test): each maximal literal-only expression is located by AST path in input and output and '
        'evaluated with empty builtins; outcome must agree in exception class or type(value)+repr(value); every BinOp whose own evaluation raises or is '
        'NaN must still be that BinOp; len(output with folding) <= len(output without). Non-trivial: a fold happened or a raising/NaN expression was '
        'left alone. Distinct = sha256(source, option set, interpreter). A second family runs modules that capture the value of E where it is evaluated '
        '(defaults of nested defs/lambdas/methods, decorator arguments, class bodies, comprehensions, generators, f-strings ...; E often repeated and bool-valued so that '
        'hoisting and renaming also handle the folded node) and compares type+repr of every captured value and the ending before/after minification with all safe options.')
ASSUMPTIONS = ['exponents |e| <= 64, shifts <= 4096, sequence repeats bounded (resource bound)', 'evaluation with empty builtins in the same interpreter that ran the minifier']

FOLD_ONLY = dict(api.ALL_OFF, constant_folding=True)


def _minify(src, opts):
    return api.minify(src, opts)


def oracle(case):
    src = case['source']
    nofold = dict(case['opts'], constant_folding=False)
    r = foldcheck.check(src, _minify, case['opts'], nofold)
    if r.get('ok') is False:
        return tuple(r['signature']), r['observed']
    return None


def oracle_exec(case):
    """Execution in context: the values captured where E is evaluated must be the same before and after minification."""
    from ..oracle import observe
    src = case['source']
    a = observe.observe(src)
    if a is None:
        return None
    try:
        out = api.minify(src, case['opts'])
    except BaseException as e:
        return ('raises', type(e).__name__, api.innermost_frame(e)), str(e)[:200]
    b = observe.observe(out)
    if b is None:
        b = observe.observe(out, timeout=10.0)
    if b is None or a[:2] != b[:2]:
        return ('value-in-context-differs',), {'original': a[0][-600:] + ' / ' + a[1], 'minified': (b[0][-600:] + ' / ' + b[1]) if b else 'no termination', 'out': out[:1500]}
    return None


def replay(case):
    if case.get('exec'):
        return oracle_exec(case)
    if case.get('interp'):
        return fleet.replay_on(case['interp'], {'op': 'fold', 'src': case['source'], 'opts': case['opts']})
    return oracle(case)


def shard(ctx):
    def prop(case):
        (src, kinds), which = case
        opts = FOLD_ONLY if which else dict(api.DEFAULTS, hoist_literals=False)
        c = {'source': src, 'opts': opts}
        r = foldcheck.check(src, _minify, opts, dict(opts, constant_folding=False))
        if r.get('domain') is False:
            ctx.note('out_of_domain:host:' + str(r.get('why')))
            ctx.evaluations += 1
            return
        nt = r.get('ok') and (r['folded'] > 0 or r['left_alone'] > 0)
        ctx.case(sha(src, which), bool(nt), classes=['host', 'fold-only' if which else 'defaults'] + (['folded'] if r.get('folded') else []) + (['left-alone'] if r.get('left_alone') else []) + ['kind:' + k for k in set(kinds)],
                 sample={'source': src[:300], 'output': r.get('out'), 'sites': r.get('sites'), 'folded': r.get('folded')})
        if r.get('ok') is False:
            ctx.fail(c, tuple(r['signature']), r['observed'])

    hyp_run(ctx, 'host', st.tuples(foldexprs.fold_modules(), st.booleans()), prop, ctx.n(16000, 600000))

    # execution in context, with every safe option on (hoisting and renaming see the folded node as well)
    EXEC_OPTS = [dict(api.DEFAULTS), dict(api.ALL_OFF, constant_folding=True, hoist_literals=True), dict(api.ALL_OFF, constant_folding=True, hoist_literals=True, rename_locals=True),
                 dict(api.DEFAULTS, rename_globals=True)]

    def prop_x(case):
        (src, kinds), oi = case
        opts = EXEC_OPTS[oi]
        c = {'source': src, 'opts': opts, 'exec': True}
        r = oracle_exec(c)
        try:
            changed = api.minify(src, opts) != api.minify(src, dict(opts, constant_folding=False))
        except BaseException:
            changed = False
        ctx.case(sha('exec', src, oi), bool(changed), classes=['exec-in-context'] + ['exec:' + k for k in set(kinds)],
                 sample={'source': src[:400], 'contexts': kinds} if ctx.index == 0 else None)
        if r is not None:
            ctx.fail(c, r[0], r[1])

    hyp_run(ctx, 'exec', st.tuples(foldexprs.runnable_fold_modules(), st.integers(0, len(EXEC_OPTS) - 1)), prop_x, ctx.n(3000, 120000))

    # other interpreters
    versions = ['2.7'] + fleet.PY3_OTHERS
    v = versions[ctx.index % len(versions)]
    if fleet.interpreter_path(v) is None:
        ctx.note('interpreter_missing:' + v)
        return
    w = fleet.get_worker(v)
    lvl = fleet.level_of(v)

    def prop_w(case):
        (src, kinds), which = case
        opts = FOLD_ONLY if which else dict(api.DEFAULTS, hoist_literals=False)
        rep = w.call({'op': 'fold', 'src': src, 'opts': opts})
        if rep.get('timeout') or rep.get('worker_died'):
            ctx.note('worker_timeout_or_death:' + v)
            return
        if 'harness_error' in rep:
            raise RuntimeError('worker %s: %s' % (v, rep['harness_error']))
        if rep.get('domain') is False:
            ctx.note('out_of_domain:%s:%s' % (v, rep.get('why')))
            ctx.evaluations += 1
            return
        nt = rep.get('ok') and (rep['folded'] > 0 or rep['left_alone'] > 0)
        ctx.case(sha(src, which, v), bool(nt), classes=['interp:' + v] + (['folded:' + v] if rep.get('folded') else []),
                 sample={'interpreter': v, 'source': src[:300], 'output': rep.get('out')})
        if rep.get('ok') is False:
            ctx.fail({'source': src, 'opts': opts, 'interp': v}, tuple(rep['signature']) + (v,), rep.get('observed'))

    hyp_run(ctx, 'fleet-' + v, st.tuples(foldexprs.fold_modules(level=lvl), st.booleans()), prop_w, ctx.n(8000, 300000))
