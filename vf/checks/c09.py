"""C09 - dynamic name access freezes every name in the module."""
import ast

from hypothesis import strategies as st

from .. import api, fleet
from ..gen import taint
from ..oracle import scopes, strict_ast
from ..runner import hyp_run, sha

ID = 'C09'
LEVEL = 'exploration'
RULE = ('Generated programs (scope-shape, syntax-rich and hoist-dense profiles) into which one trigger is planted at a generated position: a load '
        'of exec/eval/locals/globals/vars replacing a randomly chosen name load (so it appears as call, bare reference, attribute base, argument, '
        'decorator, default value, inside lambdas/comprehensions/class bodies/nested defs/f-strings), or a star import at module level; the '
        'independent resolver confirms that the planted name really resolves to the builtin (otherwise the case is a near miss: counted, not '
        'asserted); x all option sets x preserve lists. Oracle: minify(P,O) is textually identical to minify(P, O with rename_locals, rename_globals '
        'and hoist_literals off); independently, in pure configurations strict_ast(parse(P)) == strict_ast(parse(output)), and in every '
        'configuration the multiset of identifiers of the output equals that of the un-renamed baseline. The exec statement trigger is exercised '
        'on the 2.7 worker. Non-trivial: without the trigger the same program would have been changed by the name-touching options. '
        'Distinct = sha256(source, options).')
RULE += ' Star imports are absolute and relative, with and without a module name; a quarter of the name triggers come with a `global <name>` declaration of the trigger somewhere in the module (a declaration binds nothing: still the builtin).'
ASSUMPTIONS = ['whether the planted name is the builtin is decided by the independent resolver']

NT = ('rename_locals', 'rename_globals', 'hoist_literals')


def identifiers(tree):
    out = []
    for n in ast.walk(tree):
        for f in ('id', 'name', 'arg', 'attr', 'asname', 'rest'):
            v = getattr(n, f, None)
            if isinstance(v, str) and not isinstance(n, ast.Constant):
                out.append(v)
        for f in ('names', 'kwd_attrs'):
            v = getattr(n, f, None)
            if isinstance(v, list) and v and isinstance(v[0], str):
                out += v
    return sorted(out)


def is_real_trigger(src, trigger):
    tree = api.parse(src)
    if trigger == 'import *':
        return True
    r = scopes.Resolver(tree)
    for s in r.scopes:
        for (node, slot, name, ctx) in s.occ:
            if name == trigger and ctx == 'load' and (r.keys[(id(node), slot)] == [('U', trigger)] or
                                                      (r.keys[(id(node), slot)] == [('L', 0, trigger)] and trigger not in r.module_assigned)):
                # unbound in the module, or merely declared global somewhere without any assignment: the builtin
                return True
    return False


def oracle(case):
    src = case['source']
    opts = case['opts']
    pl = case.get('pl') or []
    pg = case.get('pg') or []
    if not is_real_trigger(src, case['trigger']):
        return None
    off = dict(opts)
    for k in NT:
        off[k] = False
    try:
        a = api.minify(src, opts, preserve_locals=list(pl), preserve_globals=list(pg))
        b = api.minify(src, off)
    except BaseException:
        return None
    if not is_real_trigger(b, case['trigger']):
        # the only trigger sat in something an enabled transform removes (an annotation, an assert, a __debug__ block):
        # the program that is left has no dynamic name access, so nothing is claimed
        return None
    if a != b:
        return ('names-touched-despite-trigger', case['trigger'] if case['trigger'] == 'import *' else 'name'), {'with': a[:1200], 'without': b[:1200]}
    if identifiers(api.parse(a)) != identifiers(api.parse(b)):
        return ('identifier-multiset-changed',), {'out': a[:1200]}
    pure = not any(off[k] for k in api.ALL if k != 'preserve_shebang')
    if pure:
        d = strict_ast.diff(api.parse(src), api.parse(a))
        if d:
            return ('tree-changed-in-pure-configuration',), {'diff': d}
    return None


def replay(case):
    if case.get('interp'):
        return fleet.replay_on(case['interp'], {'op': 'taint2', 'src': case['source'], 'opts': case['opts']})
    return oracle(case)


def shard(ctx):
    @st.composite
    def cases(draw):
        t = draw(taint.tainted_programs())
        names = ['alpha_value', 'counter_total', 'helper_func', 'x', 'A']
        return dict(t, opts=draw(api.option_sets()), pl=draw(st.lists(st.sampled_from(names), max_size=2)), pg=draw(st.lists(st.sampled_from(names), max_size=2)))

    def prop(c):
        real = is_real_trigger(c['source'], c['trigger'])
        if not real:
            ctx.case(sha(c['source'], api.opts_key(c['opts'])), False, classes=['near-miss(shadowed or bound)'])
            return
        r = oracle(c)
        off = dict(c['opts'])
        for k in NT:
            off[k] = False
        try:
            if not is_real_trigger(api.minify(c['source'], off), c['trigger']):
                ctx.case(sha(c['source'], api.opts_key(c['opts'])), False, classes=['near-miss(trigger removed by an enabled transform)'])
                return
            nt = api.minify(c['twin'], c['opts']) != api.minify(c['twin'], off)
        except BaseException:
            nt = False
        ctx.case(sha(c['source'], api.opts_key(c['opts']), c['pl'], c['pg']), nt, classes=['trigger:' + c['trigger'], 'kind:' + c['kind']] + (['twin-would-change'] if nt else []),
                 sample={'source': c['source'][:400], 'trigger': c['trigger'], 'options_on': api.on_list(c['opts'])})
        if r is not None:
            ctx.fail({k: c[k] for k in ('source', 'opts', 'trigger', 'pl', 'pg')}, r[0], r[1])

    hyp_run(ctx, 'taint', cases(), prop, ctx.n(4000, 120000))

    # the python 2 exec statement
    if ctx.index % 4 == 0 and fleet.interpreter_path('2.7') is not None:
        w = fleet.get_worker('2.7')
        bodies = ['def f(long_argument_name, other_argument_name):\n    local_value_name = long_argument_name + other_argument_name\n    exec "x = 1"\n    return local_value_name + local_value_name\n',
                  'value_one = "a repeated literal"\nvalue_two = "a repeated literal"\ndef g():\n    inner_name = value_one + value_two + "a repeated literal"\n    return inner_name\nexec "print 1" in {}\n',
                  'class K:\n    def m(self, parameter_name):\n        exec parameter_name in globals(), locals()\n        return parameter_name, parameter_name\nlong_global_name = K()\nprint long_global_name, long_global_name\n']

        def prop2(case):
            i, opts = case
            rep = w.call({'op': 'taint2', 'src': bodies[i], 'opts': opts})
            if 'harness_error' in rep:
                raise RuntimeError(rep['harness_error'])
            ctx.case(sha('py2', i, api.opts_key(opts)), True, classes=['interp:2.7', 'trigger:exec-statement'], sample={'interpreter': '2.7', 'source': bodies[i]})
            if rep.get('ok') is False:
                ctx.fail({'source': bodies[i], 'opts': opts, 'interp': '2.7', 'trigger': 'exec statement'}, tuple(rep['signature']) + ('2.7',), rep.get('observed'))

        hyp_run(ctx, 'py2', st.tuples(st.integers(0, len(bodies) - 1), api.option_sets()), prop2, ctx.n(300, 6000) * 4)
