"""C02 - printed source re-parses to exactly the same syntax tree (strict on constant type/value/sign)."""
import ast
import re

from hypothesis import strategies as st

from .. import api, corpus, fleet
from ..gen import exhaustive, progs, py2
from ..oracle import strict_ast
from ..runner import hyp_run, sha

ID = 'C02'
LEVEL = 'exploration'
RULE = ('Families: (1) exhaustive small scope: every (parent expression kind, slot, child kind) combination and '
        'depth-3 operator chains, and every statement kind with every expression kind in its slots, enumerated; '
        '(2) random deep modules from vf.gen.progs with adversarial constants; (3) pinned corpus files; '
        '(4) the same generated modules at the feature level of each other installed interpreter (3.6-3.13) and '
        'python-2-only syntax templates on 2.7, evaluated inside that interpreter by the worker. '
        'Oracle: strict_ast(parse(S), parse(unparse(parse(S)))) and strict_ast(parse(S), parse(minify(S, all transforms off))) '
        'with constants compared by type+value (float/complex by repr). Non-trivial: tree has >=5 nodes and contains an '
        'operator nesting, a non-trivial constant, an f-string or a compound statement. Distinct = sha256(source, interpreter).')
RULE += ' Half of the fleet programs are printed with explicit parentheses around tuples, walrus and yield so that old grammars can read them; about 190 fixed version-sensitive spellings run in every interpreter.'
ASSUMPTIONS = ['the interpreter\'s own ast.parse defines the tree', 'Constant.kind (u prefix), type comments and positions are not structure',
               'AST depth bounded below the recursion limit of the recursive visitors']

INTERESTING = (ast.BinOp, ast.UnaryOp, ast.BoolOp, ast.Compare, ast.IfExp, ast.Lambda, ast.JoinedStr, ast.If, ast.For,
               ast.While, ast.Try, ast.With, ast.FunctionDef, ast.ClassDef, ast.AsyncFunctionDef, ast.NamedExpr,
               ast.Starred, ast.Await, ast.Yield, ast.Subscript, ast.Call, ast.Dict, ast.Set, ast.ListComp)


def nontrivial(tree):
    n = 0
    hit = False
    for node in ast.walk(tree):
        n += 1
        if isinstance(node, INTERESTING):
            hit = True
        elif isinstance(node, ast.Constant) and isinstance(node.value, (float, complex, str, bytes)):
            hit = True
    return n >= 5 and hit


def sig_path(d):
    return re.sub(r'\[\d+\]', '[]', d.split(':')[0])[-60:]


def oracle(case):
    src = case['source']
    try:
        tree = api.parse(src)
    except BaseException:
        return None  # out of domain
    import python_minifier
    try:
        text = python_minifier.unparse(api.parse(src))
    except RecursionError:
        return None
    except BaseException as e:
        return ('unparse-raises', type(e).__name__, api.innermost_frame(e)), str(e)[:300]
    try:
        tree2 = api.parse(text)
    except BaseException as e:
        return ('unparse-output-unparseable', type(e).__name__), {'output': text[:2000]}
    d = strict_ast.diff(tree, tree2)
    if d is not None:
        return ('unparse-tree-differs', sig_path(d)), {'diff': d, 'output': text[:2000]}
    try:
        out = api.minify(src, api.ALL_OFF)
    except RecursionError:
        return None
    except BaseException as e:
        return ('minify-alloff-raises', type(e).__name__, api.innermost_frame(e)), str(e)[:300]
    try:
        tree3 = api.parse(out)
    except BaseException as e:
        return ('minify-alloff-output-unparseable', type(e).__name__), {'output': out[:2000]}
    d = strict_ast.diff(tree, tree3)
    if d is not None:
        return ('minify-alloff-tree-differs', sig_path(d)), {'diff': d, 'output': out[:2000]}
    return None


def replay(case):
    if case.get('interp'):
        return fleet.replay_on(case['interp'], {'op': 'roundtrip', 'src': case['source'], 'opts': {}})
    return oracle(case)


def shard(ctx):
    # (1) exhaustive small scope (this shard's slice of the enumeration)
    n_ex = 0
    for src in exhaustive.sources(ctx.index, ctx.nshards, full=(ctx.tier == 'thorough')):
        c = {'source': src}
        r = oracle(c)
        n_ex += 1
        ctx.case(sha(src), True, classes=['exhaustive'], sample={'family': 'exhaustive', 'source': src})
        if r is not None:
            ctx.fail_direct(c, r[0], r[1])
    ctx.extra['exhaustive_cases'] = n_ex

    # (2) random deep modules
    def prop(prog):
        c = {'source': prog.source}
        r = oracle(c)
        try:
            nt = nontrivial(api.parse(prog.source))
        except BaseException:
            nt = False
        ctx.case(sha(prog.source), nt, classes=['gen'] + ['f:' + f for f in prog.features],
                 sample={'family': 'generated', 'source': prog.source[:400]})
        if r is not None:
            ctx.fail(c, r[0], r[1])

    strat = st.one_of(progs.programs(profile='syntax', must_compile=False), progs.programs(profile='shape', must_compile=False))
    hyp_run(ctx, 'gen', strat, prop, ctx.n(5000, 200000))

    # (3) corpus
    files = corpus.files(max_size=40000)
    mine = corpus.shard_slice(files, ctx.index, ctx.nshards)
    if ctx.tier == 'quick':
        import random
        rnd = random.Random(ctx.sub_seed('corpus'))
        rnd.shuffle(mine)
        mine = mine[:ctx.n(160, len(files))]
    for entry in mine:
        data = corpus.load(entry)
        if data is None:
            ctx.note('corpus_file_changed_or_missing')
            continue
        c = {'source': data, 'file': entry['path']}
        r = oracle(c)
        ctx.case(sha(data), True, classes=['corpus'], sample={'family': 'corpus', 'file': entry['path']})
        if r is not None:
            ctx.fail_direct(c, r[0], r[1])

    # (4) other interpreters: generated modules at their feature level; python 2 templates on 2.7
    fleet.run_fleet_share(ctx, 'roundtrip', ctx.n(2400, 80000))
    fleet.run_fixed(ctx, 'roundtrip', exhaustive.version_sensitive_sources())
    for src in exhaustive.version_sensitive_sources():
        if ctx.index == 0:
            c = {'source': src}
            r = oracle(c)
            ctx.case(sha('fixed', src), True, classes=['version-sensitive:host'])
            if r is not None:
                ctx.fail_direct(c, r[0], r[1])
    if ctx.index % 4 == 0:
        py2.run_py2(ctx, 'roundtrip', ctx.n(1200, 30000) * 4)


def parent_post(tier, seed, merged):
    # exhaustive refers to family 1 (small scope) only; the other families are sampled
    return {'exhaustive': tier == 'thorough', 'exhaustive_scope': 'family 1 (small scope)'}
