"""C16 - shebang, source encoding and line endings are handled faithfully."""
import re

from hypothesis import strategies as st

from .. import api, cli
from ..gen import encodings
from ..oracle import strict_ast
from ..runner import hyp_run, sha

ID = 'C16'
LEVEL = 'exploration'
RULE = ('Programs with non-ASCII string constants/identifiers/comments encoded with 11 ASCII-compatible codecs, declared by a PEP 263 cookie on '
        'line 1 or 2 (5 spellings), in the shebang line, by BOM or defaulted; LF/CRLF/CR/mixed newlines, final newline or not, form feeds, backslash '
        'continuations, triple-quoted strings across lines; optional #! first line from a grammar (arguments, trailing spaces, non-ASCII bytes, coding '
        'declaration); preserve_shebang on/off; bytes and str input; API and CLI. Oracle: with all transforms off strict_ast(ast.parse(bytes), '
        'ast.parse(out)) and strict_ast(ast.parse(bytes), ast.parse(out.encode("utf-8"))) (the interpreter decodes the input itself); defaults: '
        'api(bytes) == api(decoded text); first-line rule: out == first_line + "\\n" + out_without_preservation when the first line starts with #! and '
        'preservation is on, else out does not start with #!; CLI bytes (all --no-* flags, override on) re-parse to the same tree. Non-trivial: '
        'non-UTF-8 codec or BOM or non-LF newlines or a shebang, with at least one non-ASCII character. Distinct = sha256(bytes, preserve).')
RULE += ' Undeclared UTF-8 files may carry a decoy declaration where the interpreter does not look (line 3, after code, inside a string).'
ASSUMPTIONS = ['the interpreter\'s own decoder (ast.parse on bytes) is the reference for cookie/BOM/newline semantics',
               'inputs that start with a BOM may or may not get their shebang preserved (the first bytes are not #!)']

ALL_OFF_FLAGS = ['--no-combine-imports', '--no-remove-pass', '--no-hoist-literals', '--no-rename-locals', '--no-remove-object-base',
                 '--no-convert-posargs-to-args', '--no-remove-explicit-return-none', '--no-remove-builtin-exception-brackets',
                 '--no-constant-folding', '--no-remove-annotations']


def first_line(text):
    m = re.match(r'[^\r\n]*', text)
    return m.group()


def oracle(case):
    data = case['bytes']
    text = case['text']
    preserve = case['preserve']
    try:
        ref = api.parse(data)
    except BaseException:
        return None  # not a valid encoded program: out of domain
    opts = dict(api.ALL_OFF)
    opts['preserve_shebang'] = preserve
    # 1. bytes input, all transforms off
    try:
        out = api.minify(data, opts)
    except BaseException as e:
        return ('raises', type(e).__name__, api.innermost_frame(e)), str(e)[:200]
    try:
        d = strict_ast.diff(ref, api.parse(out))
    except BaseException as e:
        return ('output-unparseable', type(e).__name__), {'out': out[:300]}
    if d:
        return ('text-tree-differs', d.split(':')[0][-40:]), {'diff': d, 'out': out[:300]}
    try:
        enc = out.encode('utf-8')
    except UnicodeEncodeError as e:
        return ('output-not-encodable-as-utf8',), {'out': repr(out[:300])}
    try:
        d = strict_ast.diff(ref, api.parse(enc))
    except BaseException as e:
        return ('utf8-output-unparseable', type(e).__name__), {'out': out[:300], 'error': str(e)[:200]}
    if d:
        return ('utf8-bytes-tree-differs', 'constant' if 'constant' in d or '!=' in d else 'structure'), {'diff': d, 'out': out[:300]}
    # 2. first-line rule (bytes input)
    bom = data.startswith(b'\xef\xbb\xbf')
    fl = first_line(text)
    try:
        bare = api.minify(data, dict(opts, preserve_shebang=False))
    except BaseException as e:
        return ('raises', type(e).__name__, api.innermost_frame(e)), str(e)[:200]
    if bare.startswith('#!'):
        return ('shebang-present-without-preservation',), {'out': bare[:200]}
    if not bom:
        if fl.startswith('#!') and preserve:
            if out != fl + '\n' + bare:
                return ('first-line-rule-bytes',), {'expected_first_line': fl, 'out': out[:300]}
        elif out != bare:
            return ('unexpected-first-line-bytes',), {'out': out[:300]}
    # 3. str input: same rules, and agreement with bytes input under default options
    try:
        tout = api.minify(text, opts)
        if fl.startswith('#!') and preserve:
            if tout != fl + '\n' + api.minify(text, dict(opts, preserve_shebang=False)):
                return ('first-line-rule-text',), {'expected_first_line': fl, 'out': tout[:300]}
        elif tout.startswith('#!'):
            return ('unexpected-first-line-text',), {'out': tout[:300]}
        dopts = dict(api.DEFAULTS, preserve_shebang=preserve)
        a = api.minify(data, dopts)
        b = api.minify(text, dopts)
    except BaseException as e:
        return ('raises-text-or-defaults', type(e).__name__, api.innermost_frame(e)), str(e)[:200]
    if a != b and not bom:
        return ('api-bytes-differs-from-api-text',), {'bytes': a[:300], 'text': b[:300]}
    # 4. CLI bytes re-parse to the same tree
    if case.get('cli'):
        flags = list(ALL_OFF_FLAGS) + ([] if preserve else ['--no-preserve-shebang'])
        status, cout, err = cli.run_inprocess(['-'] + flags, data, force_env='1')
        if status != 0:
            return ('cli-fails',), {'stderr': err[-300:]}
        try:
            d = strict_ast.diff(ref, api.parse(cout))
        except BaseException as e:
            return ('cli-output-unparseable', type(e).__name__), {'out': cout[:300]}
        if d:
            return ('cli-bytes-tree-differs',), {'diff': d, 'out': cout[:300]}
        if cout != enc:
            return ('cli-bytes-differ-from-api-utf8',), {'cli': cout[:300], 'api': enc[:300]}
    return None


def replay(case):
    return oracle(case)


def shard(ctx):
    @st.composite
    def cases(draw):
        p = draw(encodings.encoded_programs())
        p['preserve'] = draw(st.booleans())
        p['cli'] = draw(st.integers(0, 3)) == 0
        return p

    def prop(c):
        r = oracle(c)
        nonascii = any(ord(ch) > 127 for ch in c['text'])
        interesting = c['codec'] != 'utf-8' or c['decl'].startswith('bom') or c['newline'] != repr('\n') or c['shebang']
        ctx.case(sha(c['bytes'], c['preserve'], c['cli']), bool(nonascii and interesting),
                 classes=['codec:' + c['codec'], 'decl:' + c['decl'], 'nl:' + c['newline'], 'shebang' if c['shebang'] else 'no-shebang',
                          'cli' if c['cli'] else 'api', 'preserve:%s' % c['preserve']],
                 sample={'bytes': repr(c['bytes'][:160]), 'codec': c['codec'], 'preserve_shebang': c['preserve']})
        if r is not None:
            ctx.fail({k: c[k] for k in ('bytes', 'text', 'preserve', 'cli', 'codec', 'decl')}, r[0], r[1])

    hyp_run(ctx, 'enc', cases(), prop, ctx.n(12000, 300000))
