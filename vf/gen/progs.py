"""G-expr / G-stmt / G-shape: constructive generator of compilable modules as stdlib ast trees.

The tree is printed with the stdlib's ast.unparse (independent of python_minifier) and the text
is what the minifier receives. compile() of the text is the domain filter; construction rules
keep the reject rate low (measured and reported by the checks).
"""
import ast
import keyword
import math

from hypothesis import strategies as st

from . import consts

LONG_NAMES = ['alpha_value', 'counter_total', 'result_list', 'item_index', 'helper_func', 'config_data',
              'value_name', 'other_thing']
BUILTIN_NAMES = ['len', 'print', 'ValueError', 'object', 'range', 'str', 'int', 'Exception', 'sorted', 'KeyError']
MINIFIER_NAMES = ['A', 'B', 'C', '_A', '_B', 'D']
DUNDER_NAMES = ['__doc__', '__name__', '__slots__', '__all__']
SHORT_NAMES = ['x', 'y', 'i', 'self', 'cls']
NON_ASCII_NAMES = ['gr\xf6\xdfe_wert', '\u0434\u0430\u043d\u043d\u044b\u0435']
ATTR_NAMES = ['attr', 'value_name', 'append', 'real', 'A', '__doc__', 'alpha_value', 'x']
MODULE_NAMES = ['os', 'sys', 'os.path', 'collections', 'collections.abc', 'typing', 'alpha_value', 'A', 'dataclasses']
TAINT_NAMES = ['exec', 'eval', 'locals', 'globals', 'vars']

BINOPS = [ast.Add, ast.Sub, ast.Mult, ast.MatMult, ast.Div, ast.Mod, ast.Pow, ast.LShift, ast.RShift, ast.BitOr,
          ast.BitXor, ast.BitAnd, ast.FloorDiv]
UNARYOPS = [ast.Invert, ast.Not, ast.UAdd, ast.USub]
SIMPLE_CONSTS = [0, 1, 2, 3, 10, 100, 255, 1000, 0.5, 1.0, 2.5, True, False, None, Ellipsis, 'key', 'name', 'x', '',
                 'hello world', b'data', b'', 1j, 'alpha beta gamma', 65536]
CMPOPS = [ast.Eq, ast.NotEq, ast.Lt, ast.LtE, ast.Gt, ast.GtE, ast.Is, ast.IsNot, ast.In, ast.NotIn]


class Cfg(object):
    def __init__(self, level=(3, 12), size=60, profile='syntax', pool=None, taint_ok=False, hoist_dense=False,
                 fstring_depth=2, interface_dense=False):
        self.level = level
        self.size = size
        self.profile = profile
        self.taint_ok = taint_ok
        self.hoist_dense = hoist_dense
        self.fstring_depth = fstring_depth
        self.interface_dense = interface_dense
        if pool is None:
            if profile == 'shape':
                pool = LONG_NAMES[:6] + BUILTIN_NAMES[:4] + MINIFIER_NAMES[:4] + ['x', 'self', '__doc__', '__trace_hide__']
            else:
                pool = LONG_NAMES + BUILTIN_NAMES + MINIFIER_NAMES + DUNDER_NAMES[:2] + SHORT_NAMES + ['__trace_hide__', '__author_email__']
            if level >= (3, 0):
                # identifiers outside ASCII are ordinary names on Python 3 (NFKC-stable spellings only)
                pool = pool + NON_ASCII_NAMES
        self.pool = pool


class Scope(object):
    def __init__(self, kind, parent=None, is_async=False):
        self.kind = kind  # module function class lambda comp
        self.parent = parent
        self.is_async = is_async
        self.bound = set()
        self.params = set()
        self.globals_ = set()
        self.nonlocals = set()
        self.used = set()
        self.pending = []     # statements a nested scope asks this (class) scope to add to its own body
        self.comp_targets = set()
        self.annotated = set()
        self.tparams = set()
        self.walrus_names = set()

    def enclosing_function(self):
        s = self.parent
        while s is not None:
            if s.kind in ('function', 'lambda'):
                return s
            if s.kind == 'module':
                return None
            s = s.parent
        return None


class Gen(object):
    def __init__(self, draw, cfg):
        self.d = draw
        self.cfg = cfg
        self.budget = cfg.size
        self.scope = Scope('module')
        self.depth = 0
        self.in_loop = False
        self.in_func = False
        self.no_ctrl = False  # inside except* / finally (<3.8): no break/continue/return
        self.allow_yield = False
        self.allow_await = False
        self.allow_walrus = True
        self.fdepth = 0
        self.edepth = 0
        self.eb = 0
        self.hard_nowalrus = 0
        self.bare_return = False
        self.leaf_only = 0
        self.literal_pool = None
        self.features = set()

    # -- primitive draws -----------------------------------------------------------------------
    def i(self, lo, hi):
        return self.d(st.integers(lo, hi))

    def p(self, prob):
        """True with probability ~prob."""
        return self.d(st.integers(0, 99)) < int(prob * 100)

    def choice(self, seq):
        return seq[self.d(st.integers(0, len(seq) - 1))]

    def pick(self, weighted):
        total = sum(w for w, _ in weighted)
        r = self.d(st.integers(0, total - 1))
        for w, f in weighted:
            if r < w:
                return f
            r -= w
        return weighted[-1][1]

    def ge(self, minor):
        return self.cfg.level >= (3, minor)

    def spend(self, n=1):
        self.budget -= n

    # -- names -----------------------------------------------------------------------------------
    def load_name_id(self):
        s = self.scope
        cands = None
        if self.p(0.6):
            visible = set()
            t = s
            while t is not None:
                visible |= t.bound | t.params
                t = t.parent
            cands = sorted(visible)
        if not cands:
            cands = self.cfg.pool
        name = self.choice(cands)
        if not self.cfg.taint_ok and name in TAINT_NAMES:
            name = 'len'
        return name

    def name_load(self):
        n = self.load_name_id()
        self.scope.used.add(n)
        return ast.Name(id=n, ctx=ast.Load())

    def store_name_id(self, annotated=False, exclude=()):
        s = self.scope
        for _ in range(6):
            n = self.choice(self.cfg.pool)
            if n in exclude or n in ('__debug__',):
                continue
            if annotated and (n in s.globals_ or n in s.nonlocals):
                continue
            if s.kind == 'comp' or n in self.all_comp_targets():
                continue
            if n in s.tparams:
                continue
            return n
        return 'fallback_name'

    def all_comp_targets(self):
        r = set()
        t = self.scope
        while t is not None and t.kind == 'comp':
            r |= t.comp_targets
            t = t.parent
        return r

    def bind(self, n):
        s = self.scope
        if n in s.globals_:
            t = s
            while t.parent is not None:
                t = t.parent
            t.bound.add(n)
        else:
            s.bound.add(n)

    def name_store(self, annotated=False, exclude=()):
        n = self.store_name_id(annotated, exclude)
        self.bind(n)
        return ast.Name(id=n, ctx=ast.Store())

    # -- constants ------------------------------------------------------------------------------
    def _norm(self, v):
        if isinstance(v, float) and (math.copysign(1.0, v) < 0 or v != v):
            v = 0.0
        if isinstance(v, complex) and (v.real != 0 or math.copysign(1.0, v.real) < 0 or math.copysign(1.0, v.imag) < 0 or v != v):
            v = 1j
        if isinstance(v, int) and not isinstance(v, bool) and v < 0:
            v = -v
        return v

    def make_pool(self):
        pool = []
        for _ in range(2):
            pool.append(''.join(self.choice(consts.CHARS + consts.WORDS) for _ in range(self.i(1, 3))))
        pool.append(b''.join(self.choice(consts.BYTE_CHARS) for _ in range(self.i(1, 3))))
        return pool + ['a longer string literal', b'a longer bytes literal', True, False, None, 'value_name', 1, 1.0]

    def const(self):
        if self.fdepth > 0 and not self.ge(12):
            # before PEP 701 a string inside an f-string expression cannot reuse the quote or hold a backslash;
            # ast.unparse of the 3.12 host would spell it the 3.12 way. Keep nested constants numeric there.
            return ast.Constant(value=self.choice([0, 1, 2, 10, 255, 1.5, True, None, 1000]))
        if (self.cfg.hoist_dense and self.p(0.08)) or self.p(0.02):
            # literal arithmetic that folds to a hoistable constant (True / False): folding runs before hoisting
            a, b = self.choice([True, False]), self.choice([True, False])
            self.features.add('foldable_bool_arith')
            return ast.BinOp(left=ast.Constant(value=a), op=self.choice([ast.BitOr, ast.BitAnd, ast.BitXor])(), right=ast.Constant(value=b))
        if self.cfg.hoist_dense or (self.literal_pool is not None and self.p(0.5)):
            if self.literal_pool is None:
                self.literal_pool = self.make_pool()
            return ast.Constant(value=self.choice(self.literal_pool))
        if self.literal_pool is None and self.p(0.1):
            self.literal_pool = self.make_pool()
        r = self.i(0, 19)
        if r < 8:
            v = self.choice(SIMPLE_CONSTS)
        elif r < 10:
            v = self.choice(consts.INTS)
        elif r < 12:
            v = self.choice(consts.FLOATS)
        elif r < 13:
            v = self.choice(consts.IMAGS)
        elif r < 16:
            v = ''.join(self.choice(consts.CHARS) for _ in range(self.i(0, 4)))
        elif r < 17:
            v = b''.join(self.choice(consts.BYTE_CHARS) for _ in range(self.i(0, 4)))
        else:
            v = self.d(consts.any_const())
        return ast.Constant(value=self._norm(v))

    # -- expressions ------------------------------------------------------------------------------
    def expr(self, starred_ok=False):
        top = self.edepth == 0
        if top:
            self.eb = self.choice([0, 1, 1, 2, 3, 4, 6, 9, 14])
        self.edepth += 1
        try:
            if self.eb <= 0 or self.edepth > 7 or self.leaf_only:
                return self.leaf()
            self.eb -= 1
            w = [
                (14, self.leaf), (6, self.e_binop), (3, self.e_unary), (3, self.e_boolop), (3, self.e_compare),
                (4, self.e_call), (3, self.e_attr), (3, self.e_subscript), (2, self.e_ifexp), (2, self.e_lambda),
                (2, self.e_tuple), (2, self.e_list), (1, self.e_set), (2, self.e_dict), (3, self.e_comp),
                (2, self.e_fstring),
            ]
            if self.allow_walrus and self.ge(8) and not self.hard_nowalrus:
                w.append((9 if self.scope.kind == 'comp' else 2, self.e_walrus))
            if self.allow_yield:
                w.append((1, self.e_yield))
            if self.allow_await:
                w.append((2, self.e_await))
            if starred_ok:
                w.append((2, self.e_starred))
            return self.pick(w)()
        finally:
            self.edepth -= 1

    def leaf(self):
        if self.p(0.55):
            return self.name_load()
        return self.const()

    def ann_expr(self):
        saved = self.with_flags(allow_walrus=False, allow_yield=False, allow_await=False)
        try:
            return self.expr()
        finally:
            self.restore(saved)

    def e_binop(self):
        return ast.BinOp(left=self.expr(), op=self.choice(BINOPS)(), right=self.expr())

    def e_unary(self):
        return ast.UnaryOp(op=self.choice(UNARYOPS)(), operand=self.expr())

    def e_boolop(self):
        return ast.BoolOp(op=self.choice([ast.And, ast.Or])(), values=[self.expr() for _ in range(self.i(2, 3))])

    def e_compare(self):
        n = self.i(1, 2)
        return ast.Compare(left=self.expr(), ops=[self.choice(CMPOPS)() for _ in range(n)], comparators=[self.expr() for _ in range(n)])

    def e_call(self):
        self.features.add('call')
        args = []
        keywords = []
        if self.p(0.08):
            # sole generator argument
            return ast.Call(func=self.expr(), args=[self.e_comp(kind='gen')], keywords=[])
        for _ in range(self.i(0, 3)):
            args.append(self.expr(starred_ok=True))
        used = set()
        for _ in range(self.i(0, 2)):
            if self.p(0.2):
                keywords.append(ast.keyword(arg=None, value=self.expr()))
            else:
                k = self.choice(self.cfg.pool)
                if k in used or keyword.iskeyword(k) or k == '__debug__':
                    continue
                used.add(k)
                self.features.add('kwcall')
                keywords.append(ast.keyword(arg=k, value=self.expr()))
        return ast.Call(func=self.expr(), args=args, keywords=keywords)

    def e_attr(self):
        return ast.Attribute(value=self.expr(), attr=self.choice(ATTR_NAMES), ctx=ast.Load())

    def slice_(self):
        def opt():
            return self.expr() if self.p(0.5) else None
        return ast.Slice(lower=opt(), upper=opt(), step=opt())

    def e_subscript(self, ctx=None):
        r = self.i(0, 9)
        if r < 5:
            sl = self.expr()
        elif r < 7:
            sl = self.slice_()
        else:
            elts = []
            for _ in range(self.i(1, 3)):
                q = self.i(0, 9)
                if q < 3:
                    elts.append(self.slice_())
                elif q < 4 and self.ge(11):
                    elts.append(ast.Starred(value=self.expr(), ctx=ast.Load()))
                else:
                    elts.append(self.expr())
            sl = ast.Tuple(elts=elts, ctx=ast.Load())
        return ast.Subscript(value=self.expr(), slice=sl, ctx=ctx or ast.Load())

    def e_ifexp(self):
        return ast.IfExp(test=self.expr(), body=self.expr(), orelse=self.expr())

    def e_starred(self):
        return ast.Starred(value=self.expr(), ctx=ast.Load())

    def e_tuple(self):
        return ast.Tuple(elts=[self.expr(starred_ok=True) for _ in range(self.i(0, 3))], ctx=ast.Load())

    def e_list(self):
        return ast.List(elts=[self.expr(starred_ok=True) for _ in range(self.i(0, 3))], ctx=ast.Load())

    def e_set(self):
        return ast.Set(elts=[self.expr(starred_ok=True) for _ in range(self.i(1, 3))])

    def e_dict(self):
        keys, values = [], []
        for _ in range(self.i(0, 3)):
            if self.p(0.2):
                keys.append(None)
            else:
                keys.append(self.expr())
            values.append(self.expr())
        return ast.Dict(keys=keys, values=values)

    def e_walrus(self):
        # binds in the nearest non-comprehension scope
        s = self.scope
        t = s
        while t.kind == 'comp':
            t = t.parent
        if t.kind == 'class' and s.kind == 'comp':
            return self.leaf()
        banned = self.all_comp_targets()
        n = None
        for _ in range(5):
            c = self.choice(self.cfg.pool)
            if c in banned or c == '__debug__' or c in t.tparams:
                continue
            n = c
            break
        if n is None:
            return self.leaf()
        self.features.add('walrus_in_comp' if s.kind == 'comp' else 'walrus')
        q = s
        while q is not None and q.kind == 'comp':
            q.walrus_names.add(n)
            q = q.parent
        save = self.scope
        self.scope = t
        self.bind(n)
        self.scope = save
        value = self.expr()
        return ast.NamedExpr(target=ast.Name(id=n, ctx=ast.Store()), value=value)

    def e_yield(self):
        self.features.add('yield')
        if self.p(0.3):
            if self.scope.is_async:
                return ast.Yield(value=self.expr())
            return ast.YieldFrom(value=self.expr())
        return ast.Yield(value=self.expr() if self.p(0.7) else None)

    def e_await(self):
        return ast.Await(value=self.expr())

    def e_lambda(self):
        self.features.add('lambda')
        outer = self.scope
        args = self.arguments(outer, lambda_=True)
        self.scope = Scope('lambda', outer)
        self.scope.params = set(self.arg_names(args))
        saved = (self.allow_yield, self.allow_await, self.allow_walrus)
        self.allow_yield = False
        self.allow_await = False
        self.allow_walrus = True
        try:
            body = self.expr()
        finally:
            self.scope = outer
            self.allow_yield, self.allow_await, self.allow_walrus = saved
        return ast.Lambda(args=args, body=body)

    def target(self, simple=False, in_comp=False):
        """Assignment / for / with / comprehension target."""
        r = self.i(0, 9)
        if simple or r < 6 or self.depth > 5:
            if in_comp:
                n = self.choice(self.cfg.pool)
                if n == '__debug__' or n in self.scope.walrus_names:
                    n = 'x'
                if n in self.scope.walrus_names:
                    n = 'comp_var'
                self.scope.comp_targets.add(n)
                self.scope.bound.add(n)
                return ast.Name(id=n, ctx=ast.Store())
            return self.name_store()
        self.depth += 1
        try:
            if r < 8:
                elts = []
                star = False
                for _ in range(self.i(1, 3)):
                    if not star and self.p(0.2):
                        star = True
                        elts.append(ast.Starred(value=self.target(simple=True, in_comp=in_comp), ctx=ast.Store()))
                    else:
                        elts.append(self.target(in_comp=in_comp))
                cls = ast.Tuple if self.p(0.7) else ast.List
                return cls(elts=elts, ctx=ast.Store())
            if in_comp:
                # attribute/subscript targets in comprehensions: value evaluated in comp scope
                pass
            if r < 9:
                return ast.Attribute(value=self.name_load(), attr=self.choice(ATTR_NAMES), ctx=ast.Store())
            saved = self.allow_walrus
            sub = self.e_subscript(ctx=ast.Store())
            self.allow_walrus = saved
            return sub
        finally:
            self.depth -= 1

    def e_comp(self, kind=None, walrus_elt=False):
        self.features.add('comprehension')
        outer = self.scope
        kind = kind or self.choice(['list', 'set', 'gen', 'dict'])
        saved = (self.allow_yield, self.allow_await, self.allow_walrus)
        self.allow_yield = False
        is_async_ctx = self.allow_await
        self.allow_await = False
        comp_scope = Scope('comp', outer, is_async=outer.is_async)
        gens = []
        ngen = 1 if self.p(0.75) else 2
        try:
            for gi in range(ngen):
                # the first iterable is evaluated in the enclosing scope; the others in the comprehension
                self.scope = outer if gi == 0 else comp_scope
                self.allow_walrus = False
                self.hard_nowalrus += 1
                try:
                    it = self.expr()
                finally:
                    self.hard_nowalrus -= 1
                self.scope = comp_scope
                tgt = self.target(in_comp=True)
                self.allow_walrus = saved[2] and self.ge(8)
                ifs = [self.expr() for _ in range(self.i(0, 1) if self.p(0.6) else 2)]
                is_async = 1 if (is_async_ctx and self.p(0.2)) else 0
                gens.append(ast.comprehension(target=tgt, iter=it, ifs=ifs, is_async=is_async))
            self.scope = comp_scope
            self.allow_walrus = saved[2] and self.ge(8)
            if kind == 'dict':
                node = ast.DictComp(key=self.expr(), value=self.expr(), generators=gens)
            else:
                if walrus_elt and self.allow_walrus and not self.hard_nowalrus:
                    elt = self.e_walrus()
                elif self.allow_walrus and not self.hard_nowalrus and self.depth < 4 and self.p(0.12):
                    # a comprehension nested in the element whose own element is an assignment expression: the target binds outside
                    # both comprehensions and must not collide with either iteration variable
                    self.features.add('walrus_in_nested_comp')
                    elt = self.e_comp(walrus_elt=True)
                else:
                    elt = self.expr()
                cls = {'list': ast.ListComp, 'set': ast.SetComp, 'gen': ast.GeneratorExp}[kind]
                node = cls(elt=elt, generators=gens)
        finally:
            self.scope = outer
            self.allow_yield, self.allow_await, self.allow_walrus = saved
        return node

    def e_fstring(self):
        if self.fdepth >= self.cfg.fstring_depth or (self.fdepth >= 1 and not self.ge(12)):
            return self.const()
        self.features.add('fstring')
        self.fdepth += 1
        saved = (self.allow_yield, self.allow_await)
        # yield / await inside f-strings are legal but ast.unparse support varies; keep them out
        self.allow_yield = False
        self.allow_await = False
        try:
            values = []
            last_const = False
            for _ in range(self.i(1, 4)):
                if not last_const and self.p(0.45):
                    s = self.d(consts.strs(3))
                    if s == '':
                        continue
                    values.append(ast.Constant(value=s))
                    last_const = True
                else:
                    last_const = False
                    conv = self.choice([-1, -1, -1, 115, 114, 97])
                    spec = None
                    if self.p(0.25):
                        svals = []
                        if self.p(0.6):
                            svals.append(ast.Constant(value=self.choice(['>10', '.2f', 'x', '^', '05d', ' ', '<', '#x'])))
                        if self.p(0.4):
                            svals.append(ast.FormattedValue(value=self.leaf(), conversion=-1, format_spec=None))
                        if svals:
                            spec = ast.JoinedStr(values=svals)
                    values.append(ast.FormattedValue(value=self.expr(), conversion=conv, format_spec=spec))
            return ast.JoinedStr(values=values)
        finally:
            self.fdepth -= 1
            self.allow_yield, self.allow_await = saved

    # -- arguments --------------------------------------------------------------------------------
    def arg_names(self, a):
        names = [x.arg for x in getattr(a, 'posonlyargs', []) + a.args + a.kwonlyargs]
        if a.vararg:
            names.append(a.vararg.arg)
        if a.kwarg:
            names.append(a.kwarg.arg)
        return names

    def arguments(self, outer, lambda_=False, method=False):
        used = set()

        def fresh():
            for _ in range(8):
                n = self.choice(self.cfg.pool)
                if n not in used and n != '__debug__':
                    used.add(n)
                    return n
            n = 'p%d' % len(used)
            used.add(n)
            return n

        def ann():
            if lambda_ or not self.p(0.3):
                return None
            return self.ann_expr()

        posonly, args, kwonly, defaults, kw_defaults = [], [], [], [], []
        vararg = kwarg = None
        if method and self.p(0.15):
            # a method without positional parameters: (*args, flag=..., **options) or (*, value, factor=2)
            save = self.scope
            self.scope = outer
            try:
                if self.p(0.5):
                    vararg = ast.arg(arg=fresh(), annotation=None)
                for _ in range(self.i(1, 2)):
                    kwonly.append(ast.arg(arg=fresh(), annotation=ann()))
                    kw_defaults.append(self.expr() if self.p(0.6) else None)
                if self.p(0.4):
                    kwarg = ast.arg(arg=fresh(), annotation=None)
            finally:
                self.scope = save
            self.features.add('method_without_positional_parameters')
            return ast.arguments(posonlyargs=[], args=[], vararg=vararg, kwonlyargs=kwonly, kw_defaults=kw_defaults, kwarg=kwarg, defaults=[])
        if method and self.p(0.8):
            first = self.choice(['self', 'cls', 'self', 'alpha_value'])
            if first not in used:
                used.add(first)
                args.append(ast.arg(arg=first, annotation=None))
        if self.ge(8) and self.p(0.25):
            for _ in range(self.i(1, 2)):
                posonly.append(ast.arg(arg=fresh(), annotation=ann()))
            self.features.add('posonly')
        for _ in range(self.i(0, 3)):
            args.append(ast.arg(arg=fresh(), annotation=ann()))
        npos = len(posonly) + len(args)
        ndef = self.i(0, npos) if self.p(0.5) else 0
        # defaults are evaluated in the enclosing scope
        save = self.scope
        self.scope = outer
        try:
            defaults = [self.expr() for _ in range(ndef)]
            if self.p(0.3):
                vararg = ast.arg(arg=fresh(), annotation=ann())
            if self.p(0.3):
                for _ in range(self.i(1, 2)):
                    kwonly.append(ast.arg(arg=fresh(), annotation=ann()))
                    kw_defaults.append(self.expr() if self.p(0.5) else None)
                if vararg is None and not kwonly:
                    pass
            if self.p(0.3):
                kwarg = ast.arg(arg=fresh(), annotation=ann())
        finally:
            self.scope = save
        return ast.arguments(posonlyargs=posonly, args=args, vararg=vararg, kwonlyargs=kwonly,
                             kw_defaults=kw_defaults, kwarg=kwarg, defaults=defaults)

    # -- statements -------------------------------------------------------------------------------
    def body(self, min_len=1, max_len=4):
        self.depth += 1
        try:
            n = self.i(min_len, max_len)
            out = []
            for _ in range(n):
                if self.budget <= 0 and out:
                    break
                out.append(self.stmt())
            return out
        finally:
            self.depth -= 1

    def stmt(self):
        self.spend()
        deep = self.depth > 5 or self.budget <= 0
        w = [(8, self.s_assign), (6, self.s_expr), (2, self.s_augassign), (2, self.s_annassign), (2, self.s_pass),
             (2, self.s_delete), (2, self.s_import), (2, self.s_raise), (1, self.s_assert)]
        if not deep:
            w += [(5, self.s_funcdef), (3, self.s_classdef), (3, self.s_if), (3, self.s_for), (2, self.s_while),
                  (3, self.s_try), (2, self.s_with)]
            if self.ge(10):
                w.append((2, self.s_match))
        if self.in_func and not self.no_ctrl:
            w.append((3, self.s_return))
        if self.in_loop and not self.no_ctrl:
            w.append((2, self.s_break))
        if self.ge(12) and self.scope.kind in ('module', 'function', 'class'):
            w.append((1, self.s_typealias))
        return self.pick(w)()

    def s_pass(self):
        return ast.Pass()

    def s_break(self):
        return ast.Break() if self.p(0.5) else ast.Continue()

    def s_expr(self):
        return ast.Expr(value=self.expr())

    def s_assign(self):
        value = self.expr()
        targets = [self.target() for _ in range(1 if self.p(0.85) else 2)]
        if self.p(0.15) and isinstance(value, (ast.Name, ast.Constant)):
            value = ast.Tuple(elts=[value, self.expr(starred_ok=True)], ctx=ast.Load())
        return ast.Assign(targets=targets, value=value, lineno=1)

    def s_augassign(self):
        value = self.expr()
        r = self.i(0, 9)
        if r < 6:
            t = self.name_store()
            self.scope.used.add(t.id)
        elif r < 8:
            t = ast.Attribute(value=self.name_load(), attr=self.choice(ATTR_NAMES), ctx=ast.Store())
        else:
            t = ast.Subscript(value=self.name_load(), slice=self.leaf(), ctx=ast.Store())
        return ast.AugAssign(target=t, op=self.choice(BINOPS)(), value=value)

    def s_annassign(self):
        self.features.add('annassign')
        ann = self.ann_expr() if self.p(0.4) else self.name_load()
        value = self.expr() if self.p(0.6) else None
        r = self.i(0, 9)
        if r < 7:
            s = self.scope
            n = self.store_name_id(annotated=True)
            if n in s.globals_ or n in s.nonlocals:
                return ast.Pass()
            # a name annotated in a function scope is local to it even without a value
            s.annotated.add(n)
            if value is not None or s.kind == 'function':
                self.bind(n)
            return ast.AnnAssign(target=ast.Name(id=n, ctx=ast.Store()), annotation=ann, value=value, simple=1)
        if r < 9:
            t = ast.Attribute(value=self.name_load(), attr=self.choice(ATTR_NAMES), ctx=ast.Store())
        else:
            t = ast.Subscript(value=self.name_load(), slice=self.leaf(), ctx=ast.Store())
        return ast.AnnAssign(target=t, annotation=ann, value=value, simple=0)

    def s_delete(self):
        targets = []
        for _ in range(self.i(1, 2)):
            r = self.i(0, 9)
            if r < 6:
                n = self.store_name_id()
                self.bind(n)
                targets.append(ast.Name(id=n, ctx=ast.Del()))
            elif r < 8:
                targets.append(ast.Attribute(value=self.name_load(), attr=self.choice(ATTR_NAMES), ctx=ast.Del()))
            else:
                targets.append(ast.Subscript(value=self.name_load(), slice=self.leaf(), ctx=ast.Del()))
        return ast.Delete(targets=targets)

    def s_import(self):
        self.features.add('import')
        def asname():
            if self.p(0.4):
                n = self.store_name_id()
                self.bind(n)
                return n
            return None
        if self.p(0.5):
            names = []
            for _ in range(self.i(1, 2)):
                m = self.choice(MODULE_NAMES)
                a = asname()
                if a is None:
                    root = m.split('.')[0]
                    if root in self.all_comp_targets() or root in self.scope.tparams:
                        a = 'alias_name'
                    self.bind(a or root)
                names.append(ast.alias(name=m, asname=a))
            return ast.Import(names=names)
        names = []
        for _ in range(self.i(1, 3)):
            m = self.choice(['path', 'alpha_value', 'A', 'OrderedDict', 'value_name', 'counter_total'])
            a = asname()
            if a is None:
                self.bind(m)
            names.append(ast.alias(name=m, asname=a))
        level = self.choice([0, 0, 0, 1, 2])
        module = self.choice(MODULE_NAMES) if (level == 0 or self.p(0.6)) else None
        return ast.ImportFrom(module=module, names=names, level=level)

    def s_raise(self):
        self.features.add('raise')
        if self.p(0.1):
            return ast.Raise(exc=None, cause=None)
        def exc():
            r = self.i(0, 9)
            name = ast.Name(id=self.choice(['ValueError', 'KeyError', 'Exception', 'StopIteration', 'alpha_value', 'OSError']), ctx=ast.Load())
            if r < 4:
                return ast.Call(func=name, args=[], keywords=[])
            if r < 6:
                return name
            if r < 8:
                return ast.Call(func=name, args=[self.expr()], keywords=[])
            return self.expr()
        return ast.Raise(exc=exc(), cause=exc() if self.p(0.25) else None)

    def s_assert(self):
        return ast.Assert(test=self.expr(), msg=self.expr() if self.p(0.4) else None)

    def s_return(self):
        r = self.i(0, 9)
        if r < 2 or self.bare_return:
            return ast.Return(value=None)
        if r < 4:
            return ast.Return(value=ast.Constant(value=None))
        return ast.Return(value=self.expr(starred_ok=False))

    def s_typealias(self):
        n = self.store_name_id()
        self.bind(n)
        # the value lives in an annotation scope: keep it free of walrus/yield/await
        saved = (self.allow_yield, self.allow_await, self.allow_walrus, self.leaf_only)
        self.allow_yield = self.allow_await = self.allow_walrus = False
        self.leaf_only = 1 if self.scope.kind == 'class' else self.leaf_only
        try:
            v = self.expr()
        finally:
            self.allow_yield, self.allow_await, self.allow_walrus, self.leaf_only = saved
        return ast.TypeAlias(name=ast.Name(id=n, ctx=ast.Store()), type_params=[], value=v)

    def with_flags(self, **kw):
        saved = {k: getattr(self, k) for k in kw}
        for k, v in kw.items():
            setattr(self, k, v)
        return saved

    def restore(self, saved):
        for k, v in saved.items():
            setattr(self, k, v)

    def s_if(self):
        test = self.expr()
        body = self.body()
        orelse = self.body() if self.p(0.4) else []
        return ast.If(test=test, body=body, orelse=orelse)

    def s_for(self):
        it = self.expr(starred_ok=False)
        tgt = self.target()
        saved = self.with_flags(in_loop=True)
        try:
            body = self.body()
        finally:
            self.restore(saved)
        orelse = self.body(1, 2) if self.p(0.2) else []
        if self.scope.kind == 'function' and self.scope.is_async and self.p(0.3):
            return ast.AsyncFor(target=tgt, iter=it, body=body, orelse=orelse, lineno=1)
        return ast.For(target=tgt, iter=it, body=body, orelse=orelse, lineno=1)

    def s_while(self):
        test = self.expr()
        saved = self.with_flags(in_loop=True)
        try:
            body = self.body()
        finally:
            self.restore(saved)
        orelse = self.body(1, 2) if self.p(0.2) else []
        return ast.While(test=test, body=body, orelse=orelse)

    def s_try(self):
        self.features.add('try')
        star = self.ge(11) and self.p(0.2)
        body = self.body()
        handlers = []
        for _ in range(self.i(0, 2)):
            typ = None
            name = None
            if star or self.p(0.8):
                typ = ast.Name(id=self.choice(['ValueError', 'Exception', 'KeyError', 'alpha_value']), ctx=ast.Load()) if self.p(0.7) else self.expr()
                if self.p(0.6):
                    name = self.store_name_id()
                    self.bind(name)
                    self.features.add('except_name')
            saved = self.with_flags(no_ctrl=True) if star else {}
            try:
                hbody = self.body(1, 2)
            finally:
                self.restore(saved)
            handlers.append(ast.ExceptHandler(type=typ, name=name, body=hbody))
        # a bare except must be last
        handlers.sort(key=lambda h: h.type is None)
        if sum(1 for h in handlers if h.type is None) > 1:
            handlers = [h for h in handlers if h.type is not None] + [h for h in handlers if h.type is None][:1]
        orelse = self.body(1, 2) if handlers and self.p(0.3) else []
        finalbody = []
        if not handlers or self.p(0.3):
            saved = self.with_flags(no_ctrl=True) if not self.ge(8) else {}
            try:
                finalbody = self.body(1, 2)
            finally:
                self.restore(saved)
        if star and handlers:
            return ast.TryStar(body=body, handlers=handlers, orelse=orelse, finalbody=finalbody)
        return ast.Try(body=body, handlers=handlers, orelse=orelse, finalbody=finalbody)

    def s_with(self):
        items = []
        for _ in range(self.i(1, 2)):
            ce = self.expr()
            ov = self.target() if self.p(0.6) else None
            items.append(ast.withitem(context_expr=ce, optional_vars=ov))
        body = self.body()
        if self.scope.kind == 'function' and self.scope.is_async and self.p(0.3):
            return ast.AsyncWith(items=items, body=body, lineno=1)
        return ast.With(items=items, body=body, lineno=1)

    # match ----------------------------------------------------------------------------------------
    def pattern(self, captures, depth=0):
        """Returns (pattern, irrefutable)."""
        r = self.i(0, 11)
        if depth > 2:
            r = self.i(0, 3)
        if r < 2:
            v = self.d(st.one_of(consts.ints(), consts.strs(2), consts.bytess(2)))
            node = ast.Constant(value=v)
            if self.p(0.2) and isinstance(v, int):
                node = ast.UnaryOp(op=ast.USub(), operand=ast.Constant(value=v))
            return ast.MatchValue(value=node), False
        if r < 3:
            return ast.MatchValue(value=ast.Attribute(value=self.name_load(), attr=self.choice(ATTR_NAMES), ctx=ast.Load())), False
        if r < 4:
            return ast.MatchSingleton(value=self.choice([True, False, None])), False
        if r < 6:
            # capture / wildcard
            if self.p(0.3):
                return ast.MatchAs(pattern=None, name=None), True
            n = self.cap_name(captures)
            if n is None:
                return ast.MatchAs(pattern=None, name=None), True
            return ast.MatchAs(pattern=None, name=n), True
        if r < 7:
            sub, irr = self.pattern(captures, depth + 1)
            n = self.cap_name(captures)
            if n is None:
                return sub, irr
            return ast.MatchAs(pattern=sub, name=n), irr
        if r < 9:
            pats = []
            star = False
            for _ in range(self.i(0, 3)):
                if not star and self.p(0.25):
                    star = True
                    pats.append(ast.MatchStar(name=self.cap_name(captures) if self.p(0.7) else None))
                else:
                    pats.append(self.pattern(captures, depth + 1)[0])
            return ast.MatchSequence(patterns=pats), False
        if r < 10:
            keys, pats = [], []
            seen = set()
            for _ in range(self.i(0, 2)):
                k = self.d(st.one_of(consts.ints(), consts.strs(2)))
                if self.literal_pool is not None and self.p(0.7):
                    # keys of a mapping pattern are plain expressions (not MatchValue): repeated pool literals are hoisting candidates
                    cand = [v for v in self.literal_pool if type(v) in (str, bytes)]
                    if cand:
                        k = self.choice(cand)
                        self.features.add('pool_literal_mapping_key')
                if repr(k) in seen:
                    continue
                seen.add(repr(k))
                keys.append(ast.Constant(value=k))
                pats.append(self.pattern(captures, depth + 1)[0])
            rest = self.cap_name(captures) if self.p(0.3) else None
            return ast.MatchMapping(keys=keys, patterns=pats, rest=rest), False
        if r < 11:
            cls = self.name_load() if self.p(0.7) else ast.Attribute(value=self.name_load(), attr=self.choice(ATTR_NAMES), ctx=ast.Load())
            pats = [self.pattern(captures, depth + 1)[0] for _ in range(self.i(0, 2))]
            kwd_attrs, kwd_pats = [], []
            for _ in range(self.i(0, 2)):
                a = self.choice(ATTR_NAMES)
                if a in kwd_attrs:
                    continue
                kwd_attrs.append(a)
                kwd_pats.append(self.pattern(captures, depth + 1)[0])
            return ast.MatchClass(cls=cls, patterns=pats, kwd_attrs=kwd_attrs, kwd_patterns=kwd_pats), False
        # or-pattern of refutable, capture-free alternatives (keeps "alternatives bind the same names" trivially true)
        alts = []
        for _ in range(self.i(2, 3)):
            v = self.d(st.one_of(consts.ints(), consts.strs(2)))
            alts.append(ast.MatchValue(value=ast.Constant(value=v)))
        return ast.MatchOr(patterns=alts), False

    def cap_name(self, captures):
        for _ in range(5):
            n = self.store_name_id()
            if n not in captures and n != '_' and n != 'fallback_name':
                captures.add(n)
                self.bind(n)
                return n
        return None

    def s_match(self):
        self.features.add('match')
        subject = self.expr()
        cases = []
        ncases = self.i(1, 3)
        for ci in range(ncases):
            captures = set()
            pat, irr = self.pattern(captures)
            guard = self.expr() if self.p(0.3) else None
            if irr and guard is None and ci != ncases - 1:
                guard = self.expr()
            cases.append(ast.match_case(pattern=pat, guard=guard, body=self.body(1, 2)))
        return ast.Match(subject=subject, cases=cases)

    # defs ------------------------------------------------------------------------------------------
    def decorators(self, method=False):
        out = []
        if method and self.p(0.4):
            out.append(ast.Name(id=self.choice(['classmethod', 'staticmethod', 'property', 'alpha_value']), ctx=ast.Load()))
            self.features.add('decorated_method')
        for _ in range(self.i(0, 1) if self.p(0.3) else 0):
            if self.ge(9):
                out.append(self.expr())
            else:
                base = self.name_load()
                if self.p(0.5):
                    base = ast.Attribute(value=base, attr=self.choice(ATTR_NAMES), ctx=ast.Load())
                if self.p(0.5):
                    base = ast.Call(func=base, args=[self.leaf()], keywords=[])
                out.append(base)
        return out

    def type_params(self, scope):
        if not self.ge(12) or not self.p(0.12):
            return []
        out = []
        used = set()
        for _ in range(self.i(1, 2)):
            n = self.choice(['T', 'K', 'alpha_value', 'A'])
            if n in used:
                continue
            used.add(n)
            r = self.i(0, 5)
            if r < 4:
                out.append(ast.TypeVar(name=n, bound=self.name_load() if self.p(0.3) else None))
            elif r < 5:
                out.append(ast.TypeVarTuple(name=n))
            else:
                out.append(ast.ParamSpec(name=n))
        self.features.add('type_params')
        return out

    def s_funcdef(self):
        outer = self.scope
        is_async = self.p(0.15)
        method = outer.kind == 'class'
        decos = self.decorators(method)
        tps = self.type_params(outer)
        if tps:
            # defaults/annotations then live in an annotation scope; keep them simple
            saved_w = self.with_flags(allow_walrus=False, allow_yield=False, allow_await=False, leaf_only=1 if outer.kind == 'class' else 0)
        else:
            saved_w = {}
        try:
            args = self.arguments(outer, method=method)
            returns = self.ann_expr() if self.p(0.25) else None
        finally:
            self.restore(saved_w)
        name = self.store_name_id()
        if tps and name in [t.name for t in tps]:
            name = 'helper_func'
        self.bind(name)
        fs = Scope('function', outer, is_async=is_async)
        fs.params = set(self.arg_names(args))
        fs.tparams = set(t.name for t in tps)
        self.features.add('nested_def' if outer.kind == 'function' else ('method' if method else 'def'))
        body = []
        # global / nonlocal declarations go first so that "used prior to declaration" cannot happen
        if self.p(0.25):
            names = []
            for _ in range(self.i(1, 2)):
                n = self.choice(self.cfg.pool)
                if n not in fs.params and n not in names and n != '__debug__' and n not in fs.tparams:
                    names.append(n)
            if names:
                fs.globals_ |= set(names)
                body.append(ast.Global(names=names))
                self.features.add('global_decl')
        ef = None
        t = outer
        while t is not None:
            if t.kind == 'function':
                ef = t
                break
            t = t.parent
        through_class = False
        t = outer
        while t is not None and t is not ef:
            if t.kind == 'class':
                through_class = True
            t = t.parent
        if ef is not None and self.p(0.8 if through_class else 0.35):
            cands = sorted(((ef.bound | ef.params) - ef.globals_) - fs.params - fs.globals_ - fs.tparams)
            # a name nonlocal in ef must itself resolve further out: it does, by construction
            if cands:
                names = []
                for _ in range(self.i(1, 2)):
                    n = self.choice(cands)
                    if n not in names:
                        names.append(n)
                fs.nonlocals |= set(names)
                body.append(ast.Nonlocal(names=names))
                self.features.add('nonlocal_decl')
                # class bodies between this function and the one that owns the variable: closure lookup skips every one of them,
                # also when they bind the same name themselves
                t = outer
                between = []
                while t is not None and t is not ef:
                    if t.kind == 'class':
                        between.append(t)
                    t = t.parent
                if between and self.p(0.6):
                    self.features.add('nonlocal_through_class_binding_same_name')
                    for c in between:
                        if self.p(0.7):
                            c.bound.add(names[0])
                            c.pending.append(ast.Assign(targets=[ast.Name(id=names[0], ctx=ast.Store())], value=ast.Constant(value=self.i(0, 9)), lineno=1))
        agen = is_async and self.p(0.3)
        saved = self.with_flags(in_loop=False, in_func=True, no_ctrl=False, allow_yield=(agen or not is_async),
                                allow_await=is_async, allow_walrus=True, bare_return=agen, leaf_only=0)
        self.scope = fs
        try:
            if self.p(0.15):
                body.insert(0, ast.Expr(value=ast.Constant(value=self.choice(consts.WORDS))))
            body += self.body(1, 4)
        finally:
            self.scope = outer
            self.restore(saved)
        if is_async:
            # 'yield from' is illegal in async functions
            for n in ast.walk(ast.Module(body=body, type_ignores=[])):
                pass
        cls = ast.AsyncFunctionDef if is_async else ast.FunctionDef
        kw = dict(name=name, args=args, body=body, decorator_list=decos, returns=returns, lineno=1)
        if self.ge(12):
            kw['type_params'] = tps
        return cls(**kw)

    def s_classdef(self):
        outer = self.scope
        decos = self.decorators()
        tps = self.type_params(outer)
        saved_w = self.with_flags(allow_walrus=False, allow_yield=False, allow_await=False, leaf_only=1 if outer.kind == 'class' else 0) if tps else {}
        try:
            bases = []
            for _ in range(self.i(0, 2)):
                bases.append(ast.Name(id='object', ctx=ast.Load()) if self.p(0.4) else self.expr())
            keywords = []
            if self.p(0.15):
                keywords.append(ast.keyword(arg='metaclass', value=self.name_load()))
        finally:
            self.restore(saved_w)
        name = self.store_name_id()
        if tps and name in [t.name for t in tps]:
            name = 'helper_func'
        self.bind(name)
        cs = Scope('class', outer)
        cs.tparams = set(t.name for t in tps)
        self.features.add('class_in_function' if outer.kind == 'function' else 'class')
        saved = self.with_flags(in_loop=False, in_func=False, no_ctrl=False, allow_yield=False, allow_await=False,
                                allow_walrus=True, bare_return=False, leaf_only=0)
        self.scope = cs
        body = []
        try:
            if self.p(0.15):
                body.append(ast.Expr(value=ast.Constant(value=self.choice(consts.WORDS))))
            if self.p(0.1):
                body.append(ast.Assign(targets=[ast.Name(id='__slots__', ctx=ast.Store())],
                                       value=ast.Tuple(elts=[ast.Constant(value='value_name'), ast.Constant(value='a longer string literal')], ctx=ast.Load()), lineno=1))
            if self.depth <= 4 and self.budget > 2 and self.p(0.2):
                # a class directly inside a class
                self.features.add('class_directly_in_class')
                body.append(self.s_classdef())
            body += self.body(1, 4)
            body += cs.pending
        finally:
            self.scope = outer
            self.restore(saved)
        kw = dict(name=name, bases=bases, keywords=keywords, body=body, decorator_list=decos)
        if self.ge(12):
            kw['type_params'] = tps
        return ast.ClassDef(**kw)

    # -- module -------------------------------------------------------------------------------------
    def module(self):
        body = []
        if self.p(0.2):
            body.append(ast.Expr(value=ast.Constant(value='module docstring text')))
        if self.p(0.1):
            body.append(ast.ImportFrom(module='__future__', names=[ast.alias(name=self.choice(['annotations', 'division', 'print_function', 'generator_stop']), asname=None)], level=0))
        n = 0
        while self.budget > 0 and n < 12:
            body.append(self.stmt())
            n += 1
        if not body:
            body.append(ast.Pass())
        m = ast.Module(body=body, type_ignores=[])
        return m


class Program(object):
    __slots__ = ('source', 'level', 'features', 'tree')

    def __init__(self, source, level, features, tree=None):
        self.source = source
        self.level = level
        self.features = features
        self.tree = tree

    def __repr__(self):
        return 'Program(level=%r, source=%r)' % (self.level, self.source)


LEVELS = [(3, 6), (3, 7), (3, 8), (3, 9), (3, 10), (3, 11), (3, 12), (3, 13)]


def _fix_async_yield_from(tree):
    """'yield from' inside async def and 'await'/'async for' placement are fixed after the fact."""
    class Fix(ast.NodeTransformer):
        def __init__(self):
            self.async_stack = [False]

        def visit_AsyncFunctionDef(self, node):
            self.async_stack.append(True)
            self.generic_visit(node)
            self.async_stack.pop()
            return node

        def visit_FunctionDef(self, node):
            self.async_stack.append(False)
            self.generic_visit(node)
            self.async_stack.pop()
            return node

        visit_Lambda = visit_FunctionDef

        def visit_YieldFrom(self, node):
            self.generic_visit(node)
            if self.async_stack[-1]:
                return ast.Yield(value=node.value)
            return node
    return Fix().visit(tree)


class _ParenUnparser(ast._Unparser):
    """ast.unparse of the 3.12 host drops parentheses that older grammars still need (`return *a, b`, `x[*a,]`, `x += *a,`,
    `for i in *a, b`, unparenthesised walrus / yield in some positions). Parentheses are not part of the tree, so spelling every
    tuple, walrus and yield with them gives the same program in a form every interpreter that has the construct can read."""

    def visit_Tuple(self, node):
        with self.delimit('(', ')'):
            self.items_view(self.traverse, node.elts)

    def visit_Subscript(self, node):
        if isinstance(node.slice, ast.Tuple) and node.slice.elts and not any(isinstance(e, ast.Slice) for e in node.slice.elts):
            self.set_precedence(ast._Precedence.ATOM, node.value)
            self.traverse(node.value)
            with self.delimit('[', ']'):
                self.traverse(node.slice)
        else:
            ast._Unparser.visit_Subscript(self, node)

    def visit_NamedExpr(self, node):
        with self.delimit('(', ')'):
            self.set_precedence(ast._Precedence.ATOM, node.target, node.value)
            self.traverse(node.target)
            self.write(' := ')
            self.traverse(node.value)

    def visit_Yield(self, node):
        with self.delimit('(', ')'):
            self.write('yield')
            if node.value:
                self.write(' ')
                self.set_precedence(ast._Precedence.ATOM, node.value)
                self.traverse(node.value)

    def visit_YieldFrom(self, node):
        with self.delimit('(', ')'):
            self.write('yield from ')
            self.set_precedence(ast._Precedence.ATOM, node.value)
            self.traverse(node.value)


def paren_unparse(tree):
    return _ParenUnparser().visit(tree)


@st.composite
def programs(draw, profile='syntax', level=None, size=None, must_compile=True, **cfgkw):
    if level is None:
        level = draw(st.sampled_from(LEVELS + [(3, 12)] * 4 + [(3, 11)] * 3))
    if size is None:
        size = draw(st.sampled_from([4, 8, 12, 16, 24, 32]))
    cfg = Cfg(level=level, size=size, profile=profile, **cfgkw)
    g = Gen(draw, cfg)
    tree = g.module()
    tree = _fix_async_yield_from(tree)
    ast.fix_missing_locations(tree)
    parens = level < (3, 11) and draw(st.booleans())
    try:
        src = paren_unparse(tree) if parens else ast.unparse(tree)
        if parens:
            g.features.add('explicit-parentheses')
    except (ValueError, RecursionError):
        # ast.unparse cannot spell some f-strings (backslash in expression part) -- out of domain
        from hypothesis import reject
        reject()
    if must_compile:
        try:
            import warnings
            with warnings.catch_warnings():
                warnings.simplefilter('ignore')
                compile(src, '<gen>', 'exec', dont_inherit=True)
        except (SyntaxError, ValueError, RecursionError, OverflowError, MemoryError):
            from hypothesis import reject
            reject()
    return Program(src, level, sorted(g.features))
