"""G-const: constants with adversarial values (ints, floats, complex, str, bytes, singletons)."""
from hypothesis import strategies as st

INTS = [0, 1, 2, 7, 9, 10, 15, 16, 99, 100, 255, 256, 999, 1000, 4095, 4096, 65535, 65536, 99999, 100000,
        1000000, 10 ** 9, 10 ** 10, 10 ** 12 - 1, 10 ** 12, 2 ** 31 - 1, 2 ** 31, 2 ** 32, 2 ** 63 - 1, 2 ** 63, 2 ** 64,
        10 ** 15, 10 ** 16, 10 ** 17 + 1, 16 ** 10, 16 ** 11 + 5, 0xdeadbeef, 0xffffffffffff, 10 ** 20, 2 ** 100, 10 ** 30 + 7,
        16 ** 30, 10 ** 50, 2 ** 200 - 1]

FLOATS = [0.0, 1.0, 0.5, 1.5, 2.0, 10.0, 100.0, 1000.0, 100000.0, 1e5, 1e16, 1e15, 1e22, 1e23, 1e-5, 1e-4, 0.0001,
          0.001, 5e-324, 1.7976931348623157e308, float('inf'), 1e100, 1.1, 0.1, 0.30000000000000004,
          123456789.12345679, 9007199254740993.0, 1e-7, 12345678901234567890.0, 3.14, 2.5e-10, 1e21, 1e+300,
          0.1e-2, 123e4, 4.0e3]

IMAGS = [0j, 1j, 2.5j, 1e5j, 1e16j, 1e22j, complex(0, float('inf')), 0.5j, 100j, 1e-5j, 1.7976931348623157e308j]

CHARS = ['a', 'b', 'Z', '0', ' ', '_', '"', "'", '\\', '\n', '\r', '\t', '\0', '{', '}', '{{', '}}', '%', '#',
         '\x07', '\x1b', '\x7f', '\x80', '\xa0', '\xe9', '\xff', 'Ā', ' ', ' ', 'あ', '\ud800',
         '\udfff', '﻿', '\U0001f600', '\U0010ffff', 'N{', '\\N', '\\x', '\\u', "'''", '"""', 'b', 'f', 'r', 'u', ':', '!', '=']

BYTE_CHARS = [b'a', b'Z', b'0', b' ', b'"', b"'", b'\\', b'\n', b'\r', b'\t', b'\0', b'{', b'}', b'\x07', b'\x7f',
              b'\x80', b'\xe9', b'\xff', b"'''", b'"""', b'%', b'#']

WORDS = ['hello world', 'alpha beta gamma', 'the quick brown fox', 'value_name', 'a longer string literal',
         'utf-8', 'key', 'name', 'x', '', 'some text here']


def ints():
    return st.one_of(
        st.sampled_from(INTS),
        st.integers(0, 300),
        st.integers(0, 2 ** 70),
        st.builds(lambda b, e, d: b ** e + d, st.sampled_from([2, 10, 16]), st.integers(1, 70), st.integers(-2, 2)).filter(lambda v: v >= 0),
    )


def floats():
    return st.one_of(
        st.sampled_from(FLOATS),
        st.floats(min_value=0.0, allow_nan=False, allow_infinity=True),
        st.floats(min_value=0.0, max_value=1e6, allow_nan=False),
        st.builds(lambda m, e: float('%de%d' % (m, e)), st.integers(0, 99999), st.integers(-30, 30)),
    )


def imags():
    return st.one_of(st.sampled_from(IMAGS), floats().map(lambda f: complex(0.0, f)))


def strs(max_parts=6):
    part = st.one_of(st.sampled_from(CHARS), st.sampled_from(WORDS), st.text(max_size=4),
                     st.characters(min_codepoint=0, max_codepoint=0x10ffff).map(str))
    return st.one_of(
        st.sampled_from(WORDS),
        st.lists(part, min_size=0, max_size=max_parts).map(''.join),
    )


def bytess(max_parts=6):
    part = st.one_of(st.sampled_from(BYTE_CHARS), st.binary(max_size=3), st.sampled_from([w.encode() for w in WORDS]))
    return st.one_of(
        st.sampled_from([w.encode() for w in WORDS]),
        st.lists(part, min_size=0, max_size=max_parts).map(b''.join),
    )


def singletons():
    return st.sampled_from([True, False, None, Ellipsis])


def numbers():
    return st.one_of(ints(), ints(), floats(), imags())


def any_const():
    return st.one_of(ints(), floats(), imags(), strs(), bytess(), singletons(), st.sampled_from([1, 1.0, True, 'a', b'a', 0, 0.0, False]))
