"""G-enc: program text x source encoding x BOM x newline convention x shebang line."""
from hypothesis import strategies as st

# codec -> sample of non-ASCII characters it can encode (ASCII-compatible source encodings CPython accepts)
CODECS = {
    'utf-8': '\xe9\xfcдあ漢\U0001f600€\xa0 ',
    'latin-1': '\xe9\xe8\xfc\xdf\xa0\xff\xd7',
    'iso-8859-15': '€\xe9Šœ',
    'cp1252': '€“”œ\xe9™',
    'cp437': '\xe9░│α\xf1',
    'koi8-r': 'даЖ─',
    'mac-roman': '\xe9†π',
    'euc-jp': 'あ漢アＡ',
    'shift_jis': 'あア漢ｱ',
    'gbk': '中文€',
    'big5': '中文あ',
}
COOKIE_FORMS = ['# -*- coding: %s -*-', '# coding=%s', '# vim: set fileencoding=%s :', '#coding:%s', '# This file uses coding: %s ok']
NEWLINES = ['\n', '\r\n', '\r']
SHEBANGS = ['#!/usr/bin/env python', '#!/usr/bin/python3 -u', '#!/bin/sh  ', '#!python', '#!', '#! /usr/bin/env python3', '#!/usr/bin/env python # a comment']


@st.composite
def encoded_programs(draw):
    codec = draw(st.sampled_from(sorted(CODECS)))
    chars = CODECS[codec]
    decl = draw(st.sampled_from(['cookie1', 'cookie2', 'cookie2', 'none', 'bom', 'bom+cookie']))
    if codec != 'utf-8' and decl in ('none', 'bom', 'bom+cookie'):
        decl = 'cookie1'
    if codec == 'utf-8' and decl in ('none', 'cookie1') and draw(st.integers(0, 2)) == 0:
        # the file is UTF-8 without a declaration; something that only looks like one sits where the interpreter does not look
        decl = 'decoy'

    def word(n=None):
        n = n if n is not None else draw(st.integers(0, 5))
        return ''.join(draw(st.sampled_from(chars + 'abz "\\n')) for _ in range(n)).replace('\\n', 'n')

    shebang = None
    if draw(st.integers(0, 9)) < 5:
        shebang = draw(st.sampled_from(SHEBANGS))
        r = draw(st.integers(0, 9))
        if r == 2:
            # characters that str.splitlines() treats as line boundaries but the tokenizer does not
            odd = ['\x0c', '\x0b', '\x1c', '\x1d', '\x1e'] + (['\x85', '\u2028', '\u2029'] if codec == 'utf-8' else [])
            shebang += ' -x' + draw(st.sampled_from(odd)) + 'tail'
        if r == 0 or (decl == 'decoy' and r < 6):
            shebang += ' ' + draw(st.sampled_from(chars))  # non-ASCII byte in the shebang line
        elif r == 1 and decl.startswith('cookie'):
            # the shebang line itself carries the coding declaration (PEP 263 allows line 1)
            shebang += ' # -*- coding: %s -*-' % codec
            decl = 'in-shebang'
    lines = []
    if shebang is not None:
        lines.append(shebang)
    cookie = draw(st.sampled_from(COOKIE_FORMS)) % codec
    if decl == 'cookie1' or decl == 'bom+cookie':
        lines.append(cookie)
    elif decl == 'cookie2':
        if shebang is None:
            lines.append(draw(st.sampled_from(['# first line comment', '', '#'])))
        lines.append(cookie)
    elif decl == 'decoy':
        other = draw(st.sampled_from(['latin-1', 'cp1252', 'koi8-r', 'shift_jis', 'cp437']))
        fake = draw(st.sampled_from(COOKIE_FORMS)) % other
        kind = draw(st.sampled_from(['line3', 'line3', 'after-code', 'in-string']))
        if kind == 'after-code' and shebang is None:
            # PEP 263: the second line is only looked at when the first is blank or a comment
            lines.append(draw(st.sampled_from(['first_statement = 1', '"docstring"', 'import os'])))
            lines.append(fake)
        elif kind == 'in-string':
            lines.append('text_value = "%s"' % fake)
        else:
            while len(lines) < 2:
                lines.append(draw(st.sampled_from(['# licence comment', '', '#', '    ', '# ' + chars[0]])))
            lines.append(fake)
    names = ['value_name', 'other_name', 'x']
    if codec in ('utf-8', 'latin-1', 'cp1252', 'koi8-r') and draw(st.booleans()):
        ident = {'utf-8': 'caf\xe9', 'latin-1': 'na\xefve', 'cp1252': 'caf\xe9', 'koi8-r': 'да'}[codec]
        names.append(ident)
    nst = draw(st.integers(1, 6))
    for _ in range(nst):
        t = draw(st.integers(0, 11))
        n = draw(st.sampled_from(names))
        if t == 0:
            lines.append("%s = '%s'" % (n, word().replace("'", '')))
        elif t == 1:
            lines.append('%s = "%s" + %s' % (n, word().replace('"', ''), draw(st.sampled_from(names))))
        elif t == 2:
            lines.append('# comment %s' % word())
        elif t == 3:
            lines += ['def function_name(argument):', "    return argument + '%s'" % word().replace("'", '')]
        elif t == 4:
            lines += ["%s = '''%s" % (n, word().replace("'", '')), "%s'''" % word().replace("'", '')]
        elif t == 5:
            lines += ['%s = (1 + \\' % n, '    2)']
        elif t == 6:
            lines.append('\x0c' + "%s = b'bytes %s'" % (n, draw(st.sampled_from(['', '\\xe9', '\\n', 'abc']))))
        elif t == 7:
            lines.append("print(%s, '%s')" % (draw(st.sampled_from(names)), word().replace("'", '')))
        elif t == 8:
            lines.append("%s = f'{%s!r} %s'" % (n, draw(st.sampled_from(names)), word().replace("'", '').replace('{', '').replace('}', '')))
        elif t == 9:
            lines.append('')
        elif t == 10:
            lines += ['if %s:' % n, "\tpass  # %s" % word(), 'else:', "    %s = '%s'" % (n, word().replace("'", ''))]
        else:
            lines.append("%s = {'%s': '%s'}" % (n, word().replace("'", ''), word().replace("'", '')))
    nl = draw(st.sampled_from(NEWLINES + ['mixed']))
    final = draw(st.booleans())
    text = ''
    for i, ln in enumerate(lines):
        text += ln
        if i < len(lines) - 1 or final:
            text += draw(st.sampled_from(NEWLINES)) if nl == 'mixed' else nl
    try:
        data = text.encode(codec)
    except UnicodeEncodeError:
        data = text.encode(codec, 'replace')
        text = data.decode(codec)
    if decl.startswith('bom'):
        data = b'\xef\xbb\xbf' + data
    return {'text': text, 'bytes': data, 'codec': codec, 'decl': decl, 'newline': repr(nl), 'shebang': shebang is not None}
