"""G-py2: Python 2.7-only syntax (text templates; the 3.12 host cannot build these as ast trees)."""
from hypothesis import strategies as st

ATOMS = ['a', 'b', 'c', '1', '0', '10L', '0777', '0xFFL', '0b11', "'x'", "u'y'", "b'z'", "ur'r\\d'", '1.5', '2j', '1e100',
         '10000000000000000000000', '-1', '-1L', '- 1', '-0x10', '-1.5', '-2j', "'\\xff'", "u'\\u1234'", '"q\'"',
         "'''t'''", 'None', 'True', '1e-5', '100000.0', '0.1', '1.', '.5', '`a`', '()', '[]', '{}', 'a.b', 'a[1]',
         'a[1:2, 3]', 'a[...]', 'a[::2]', 'a[:]', 'a[..., 1:]', 'f(a, *b, **c)', 'f(x=1)', 'lambda: 1', 'lambda (p, q), r=1: p',
         '2147483648', '-2147483648', '9223372036854775808', '-9223372036854775808L', "'a' 'b'", "u'a' 'b'", '0L', '-0', '-0.0', '0e0']
BIN = ['+', '-', '*', '/', '//', '%', '**', '<<', '>>', '|', '^', '&', 'and', 'or', '<', '>', '==', '!=', '<>', '<=', '>=',
       'is', 'is not', 'in', 'not in']
UN = ['-', '+', '~', 'not ']


@st.composite
def expr(draw, depth=0):
    r = draw(st.integers(0, 9))
    if depth >= 3 or r < 4:
        return draw(st.sampled_from(ATOMS))
    if r < 7:
        l = draw(expr(depth + 1))
        rr = draw(expr(depth + 1))
        op = draw(st.sampled_from(BIN))
        return '(%s) %s (%s)' % (l, op, rr)
    if r < 8:
        return '%s(%s)' % (draw(st.sampled_from(UN)), draw(expr(depth + 1)))
    k = draw(st.integers(0, 7))
    e1 = draw(expr(depth + 1))
    e2 = draw(expr(depth + 1))
    return ['`%s`' % e1, '`%s, %s`' % (e1, e2), '(%s) if (%s) else c' % (e1, e2), '[(%s) for i in (%s), b]' % (e1, e2),
            '{(%s): (%s)}' % (e1, e2), '(%s, %s)' % (e1, e2), '[i for i in (%s) if (%s)]' % (e1, e2),
            '{i for i in (%s)}' % e1][k]


STMTS = [
    'print {0}', 'print {0},', 'print', 'print {0}, {1}', 'print >>f, {0}', 'print >>f, {0}, {1},', 'print >>f', 'print({0}, {1})',
    'print ({0}), {1}', 'exec {0}', 'exec {0} in {1}', 'exec {0} in {1}, c', 'exec({0}, g)', 'raise E, {0}', 'raise E, {0}, tb', 'raise E',
    'raise', 'x = {0}', 'x, y = {0}, {1}', 'x += {0}', 'del x[{0}]', 'assert {0}, {1}', 'return_ = {0}',
    'def f(a, (b, c), d={0}): return {1}', 'def f(a, (b, (c, d))=(1, (2, 3)), *e, **g): pass', 'def f(): yield {0}', 'def f(): x = yield',
    'try:\n    x = {0}\nexcept E, e:\n    pass', 'try:\n    pass\nexcept (E, F), (a, b):\n    print e\nelse:\n    pass\nfinally:\n    pass',
    'try:\n    pass\nexcept E as e:\n    raise', 'with {0} as x, {1} as y:\n    pass', 'with {0}:\n    pass',
    'class A:\n    pass', 'class A(object):\n    __metaclass__ = M\n    def m(self, (a, b)): return a', 'class A({0}): pass',
    'for x, (y, z) in {0}:\n    break\nelse:\n    continue_ = 1', 'while {0}:\n    print {1}\n    continue',
    'if {0}:\n    pass\nelif {1}:\n    print 1\nelse:\n    exec "x=1"', 'global g1, g2', 'import a.b as c, d', 'from . import x',
    'from .. a import (b as c, d)', 'from a import *', '@{0}\ndef f(): pass', '@a.b(c)\nclass K: pass', 'lambda (a, b): a',
    'x = [i for i in 1, 2, 3]', 'x = [i for i in a if b if c for j in d]', 'x = {{i: j for i, j in {0}}}', 'pass', '{0}', "'''doc'''",
    "x = u'\\xe9' + '\\xe9'", 'x = `1`', 'x = a if b else c', 'print >>sys.stderr, "a" % {0}', 'x = f(i for i in {0})',
]
FUTURES = ['', '', 'from __future__ import unicode_literals\n', 'from __future__ import print_function\n', 'from __future__ import division\n']


@st.composite
def py2_sources(draw):
    fut = draw(st.sampled_from(FUTURES))
    out = []
    for _ in range(draw(st.integers(1, 5))):
        t = draw(st.sampled_from(STMTS))
        if 'print_function' in fut and t.startswith('print') and not t.startswith('print('):
            t = 'x = {0}'
        s = t.format(draw(expr()), draw(expr()))
        if draw(st.integers(0, 4)) == 0 and not s.startswith(('global', 'from', 'import', 'class A(object)', '@', "'''")):
            s = 'def g(p, q=2):\n' + '\n'.join('    ' + ln for ln in s.split('\n'))
        out.append(s)
    cookie = draw(st.sampled_from(['', '', '# -*- coding: utf-8 -*-\n', '#!/usr/bin/python\n']))
    return cookie + fut + '\n'.join(out) + '\n'


def run_py2(ctx, op, n, opts_strategy=None):
    from .. import api, fleet
    from ..runner import hyp_run, sha
    if fleet.interpreter_path('2.7') is None:
        ctx.note('interpreter_missing:2.7')
        return
    w = fleet.get_worker('2.7')
    ostrat = opts_strategy or (api.option_sets() if op != 'roundtrip' else st.just({}))

    def prop(case):
        src, opts = case
        req = {'op': op, 'opts': opts, 'src': src}
        rep = w.call(req)
        if rep.get('timeout') or rep.get('worker_died'):
            ctx.note('worker_timeout_or_death:2.7')
            return
        if 'harness_error' in rep:
            raise RuntimeError('worker 2.7: %s' % rep['harness_error'])
        if rep.get('domain') is False:
            ctx.note('out_of_domain:2.7:%s' % rep.get('why'))
            ctx.evaluations += 1
            return
        ctx.case(sha(src, api.opts_key(opts), '2.7'), True, classes=['interp:2.7'],
                 sample={'interpreter': '2.7', 'source': src[:300], 'options_on': api.on_list(opts) if opts else []})
        if rep.get('ok') is False:
            ctx.fail({'source': src, 'opts': opts, 'interp': '2.7'}, tuple(rep['signature']) + ('2.7',), rep.get('observed'))

    hyp_run(ctx, 'py2', st.tuples(py2_sources(), ostrat), prop, n)
