"""Literal-only arithmetic trees in syntactic contexts (C07), with a bounded evaluator so that neither the
minifier nor the oracle is asked to build astronomically large values (resource bound, stated in DESIGN.md)."""
from hypothesis import strategies as st

from . import consts

OPS = ['+', '-', '*', '/', '//', '%', '**', '<<', '>>', '|', '^', '&', '@']
SMALL = [0, 1, 2, 3, 5, 7, 8, 10, 16, 31, 32, 60, 64, 100, 255, 256, 1000, 1024, 4096, 65536, 10 ** 6, 10 ** 9]
FL = [0.0, 0.5, 1.0, 1.5, 2.0, 10.0, 100.0, 1e5, 1e16, 1e22, 1e-5, 1e300, 1e308, 5e-324, 0.1, 0.2, 3.14, 1e999]
IM = [0j, 1j, 2.5j, 1e5j, 1e308j]


class Exc(object):
    pass


EXC = Exc()


def bounded(op, a, b):
    """Evaluate `a op b` with Python's own operators after resource pre-checks; EXC if it raises, None if too big."""
    if a is EXC or b is EXC:
        return EXC
    ia = isinstance(a, int)
    ib = isinstance(b, int)
    try:
        if op == '**':
            if ia and ib and (abs(b) > 64 or a.bit_length() > 2048):
                return 'TOOBIG'
            if isinstance(b, (float, complex)) or isinstance(a, (float, complex)):
                pass
        if op == '<<' and ia and ib and (b > 4096 or a.bit_length() > 65536):
            return 'TOOBIG'
        if op == '*':
            if isinstance(a, (str, bytes)) and ib and (b > 200 or len(a) * max(b, 0) > 4000):
                return 'TOOBIG'
            if isinstance(b, (str, bytes)) and ia and (a > 200 or len(b) * max(a, 0) > 4000):
                return 'TOOBIG'
            if ia and ib and a.bit_length() + b.bit_length() > 150000:
                return 'TOOBIG'
        v = {
            '+': lambda: a + b, '-': lambda: a - b, '*': lambda: a * b, '/': lambda: a / b, '//': lambda: a // b,
            '%': lambda: a % b, '**': lambda: a ** b, '<<': lambda: a << b, '>>': lambda: a >> b, '|': lambda: a | b,
            '^': lambda: a ^ b, '&': lambda: a & b, '@': lambda: a @ b,
        }[op]()
    except BaseException:
        return EXC
    if isinstance(v, int) and v.bit_length() > 150000:
        return 'TOOBIG'
    if isinstance(v, (str, bytes)) and len(v) > 4000:
        return 'TOOBIG'
    return v


class NoneVal(object):
    pass


def literal_text(v):
    if isinstance(v, float):
        if v == float('inf'):
            return '1e999'
        return repr(v)
    if isinstance(v, complex):
        if v.imag == float('inf'):
            return '1e999j'
        return repr(v.imag) + 'j'
    return repr(v)


@st.composite
def arith(draw, depth=0, maxdepth=4):
    """Returns (text, value) where value is the bounded evaluation (EXC when it raises)."""
    r = draw(st.integers(0, 9))
    if depth >= maxdepth or (depth > 0 and r < 4):
        k = draw(st.integers(0, 19))
        if k < 7:
            v = draw(st.sampled_from(SMALL))
        elif k < 9:
            v = draw(st.sampled_from(consts.INTS))
        elif k < 10:
            v = draw(st.integers(0, 10 ** 12))
        elif k < 13:
            v = draw(st.sampled_from(FL))
        elif k < 14:
            v = draw(st.floats(min_value=0.0, allow_nan=False))
            if str(v).startswith('-'):
                v = 0.0
        elif k < 15:
            v = draw(st.sampled_from(IM))
        elif k < 17:
            v = draw(st.sampled_from([True, False]))
        elif k < 18:
            return 'None', None  # the real value: `not None` is True, arithmetic on it raises TypeError
        elif k < 19:
            v = draw(st.sampled_from(['a', '', 'ab']))
        else:
            v = draw(st.sampled_from([b'a', b'']))
        return literal_text(v), v
    if r < 9 or depth == 0:
        for _ in range(4):
            op = draw(st.sampled_from(OPS))
            lt, lv = draw(arith(depth + 1, maxdepth))
            rt, rv = draw(arith(depth + 1, maxdepth))
            v = bounded(op, lv, rv)
            if isinstance(v, str) and v == 'TOOBIG':
                continue
            return '(%s) %s (%s)' % (lt, op, rt), v
        return '1 + 1', 2
    op = draw(st.sampled_from(['-', '+', '~', 'not ']))
    t, v = draw(arith(depth + 1, maxdepth))
    if v is EXC:
        nv = EXC
    else:
        try:
            nv = {'-': lambda: -v, '+': lambda: +v, '~': lambda: ~v, 'not ': lambda: not v}[op]()
        except BaseException:
            nv = EXC
    return '%s(%s)' % (op, t), nv


CONTEXTS = [
    'v{i} = {E}', 'f({E})', 'f(k={E})', 'x[{E}]', 'x[{E}:{E2}]', 'def g{i}(a={E}): pass', '@deco({E})\ndef h{i}(): pass',
    'def r{i}():\n    return {E}', 's{i} = f"{E}"', 'c{i} = [{E} for q in y if {E2}]', 'a{i} = ({E}).real', 'u{i} = -({E})',
    'n{i} = not ({E})', 'p{i} = ({E}) ** z', 'p{i} = z ** ({E})', 'w{i} = a < ({E}) < b', 'd{i} = {{E}: 1}', 'l{i} = lambda: {E}',
    'assert {E}, {E2}', 'w{i} = ({E}, {E2})', 'if {E}:\n    pass', 'while {E}:\n    break', 'v{i} = {E} if {E2} else 0', 'v{i} = ~({E})',
    'v{i} = ({E}) * x', 'v{i} = x - ({E})', 'v{i}: int = {E}', 'class K{i}(b, metaclass={E}): pass', 'v{i} = [{E}][0]', 'print({E}, {E2})',
    'v{i} = x.attr[{E}]', 'for q in range({E}):\n    pass', 'v{i} = ({E}).__class__', 'del x[{E}]', 'v{i} += {E}', 'raise E({E})',
]
MATCH_CONTEXT = 'match {E}:\n    case _:\n        pass'


@st.composite
def fold_modules(draw, level=(3, 12)):
    n = draw(st.integers(1, 6))
    parts = []
    values = []
    for i in range(n):
        ctx = draw(st.sampled_from(CONTEXTS + ([MATCH_CONTEXT] if level >= (3, 10) else [])))
        if level < (3, 6) and ('f"' in ctx or ': int' in ctx or 'metaclass' in ctx):
            ctx = 'v{i} = {E}'
        e, v = draw(arith())
        e2, v2 = draw(arith(maxdepth=2))
        if level < (3, 5):
            e = e.replace('@', '*')
            e2 = e2.replace('@', '*')
        parts.append(ctx.replace('{i}', str(i)).replace('{E2}', e2).replace('{E}', e))
        values.append('raises' if v is EXC else type(v).__name__)
    return '\n'.join(parts) + '\n', values
