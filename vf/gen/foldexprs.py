"""Literal-only arithmetic trees in syntactic contexts (C07), with a bounded evaluator so that neither the
minifier nor the oracle is asked to build astronomically large values (resource bound, stated in DESIGN.md)."""
from hypothesis import strategies as st

from . import consts

OPS = ['+', '-', '*', '/', '//', '%', '**', '<<', '>>', '|', '^', '&', '@']
SMALL = [0, 1, 2, 3, 5, 7, 8, 10, 16, 31, 32, 60, 64, 100, 255, 256, 1000, 1024, 4096, 65536, 10 ** 6, 10 ** 9]
FL = [0.0, 0.5, 1.0, 1.5, 2.0, 10.0, 100.0, 1e5, 1e16, 1e22, 1e-5, 1e300, 1e308, 5e-324, 0.1, 0.2, 3.14, 1e999]
IM = [0j, 1j, 2.5j, 1e5j, 1e308j]


class Exc(object):
    pass


EXC = Exc()


def bounded(op, a, b):
    """Evaluate `a op b` with Python's own operators after resource pre-checks; EXC if it raises, None if too big."""
    if a is EXC or b is EXC:
        return EXC
    ia = isinstance(a, int)
    ib = isinstance(b, int)
    try:
        if op == '**':
            if ia and ib and (abs(b) > 64 or a.bit_length() > 2048):
                return 'TOOBIG'
            if isinstance(b, (float, complex)) or isinstance(a, (float, complex)):
                pass
        if op == '<<' and ia and ib and (b > 4096 or a.bit_length() > 65536):
            return 'TOOBIG'
        if op == '*':
            if isinstance(a, (str, bytes)) and ib and (b > 200 or len(a) * max(b, 0) > 4000):
                return 'TOOBIG'
            if isinstance(b, (str, bytes)) and ia and (a > 200 or len(b) * max(a, 0) > 4000):
                return 'TOOBIG'
            if ia and ib and a.bit_length() + b.bit_length() > 150000:
                return 'TOOBIG'
        v = {
            '+': lambda: a + b, '-': lambda: a - b, '*': lambda: a * b, '/': lambda: a / b, '//': lambda: a // b,
            '%': lambda: a % b, '**': lambda: a ** b, '<<': lambda: a << b, '>>': lambda: a >> b, '|': lambda: a | b,
            '^': lambda: a ^ b, '&': lambda: a & b, '@': lambda: a @ b,
        }[op]()
    except BaseException:
        return EXC
    if isinstance(v, int) and v.bit_length() > 150000:
        return 'TOOBIG'
    if isinstance(v, (str, bytes)) and len(v) > 4000:
        return 'TOOBIG'
    return v


class NoneVal(object):
    pass


def literal_text(v):
    if isinstance(v, float):
        if v == float('inf'):
            return '1e999'
        return repr(v)
    if isinstance(v, complex):
        if v.imag == float('inf'):
            return '1e999j'
        return repr(v.imag) + 'j'
    return repr(v)


COMPACT = [('1e4', 1e4), ('1e3', 1e3), ('2e5', 2e5), ('1e-3', 1e-3), ('1E2', 100.0), ('1e16', 1e16), ('5e-324', 5e-324), ('1e22', 1e22), ('3e8', 3e8), ('1e5j', 1e5j),
           ('0x10', 16), ('0o7', 7), ('0b101', 5), ('0xffff', 65535), ('1e0', 1.0), ('9e9', 9e9), ('1e999', float('inf'))]


@st.composite
def arith(draw, depth=0, maxdepth=4):
    """Returns (text, value) where value is the bounded evaluation (EXC when it raises)."""
    r = draw(st.integers(0, 9))
    if depth >= maxdepth or (depth > 0 and r < 4):
        k = draw(st.integers(0, 22))
        if k >= 20:
            # compact spellings: the text is shorter than repr() of the value, which is what the "not longer" rule is up against
            return draw(st.sampled_from(COMPACT))
        if k < 7:
            v = draw(st.sampled_from(SMALL))
        elif k < 9:
            v = draw(st.sampled_from(consts.INTS))
        elif k < 10:
            v = draw(st.integers(0, 10 ** 12))
        elif k < 13:
            v = draw(st.sampled_from(FL))
        elif k < 14:
            v = draw(st.floats(min_value=0.0, allow_nan=False))
            if str(v).startswith('-'):
                v = 0.0
        elif k < 15:
            v = draw(st.sampled_from(IM))
        elif k < 17:
            v = draw(st.sampled_from([True, False]))
        elif k < 18:
            return 'None', None  # the real value: `not None` is True, arithmetic on it raises TypeError
        elif k < 19:
            v = draw(st.sampled_from(['a', '', 'ab']))
        else:
            v = draw(st.sampled_from([b'a', b'']))
        return literal_text(v), v
    if r < 9 or depth == 0:
        for _ in range(4):
            op = draw(st.sampled_from(OPS))
            lt, lv = draw(arith(depth + 1, maxdepth))
            rt, rv = draw(arith(depth + 1, maxdepth))
            v = bounded(op, lv, rv)
            if isinstance(v, str) and v == 'TOOBIG':
                continue
            return '(%s) %s (%s)' % (lt, op, rt), v
        return '1 + 1', 2
    op = draw(st.sampled_from(['-', '+', '~', 'not ']))
    t, v = draw(arith(depth + 1, maxdepth))
    if v is EXC:
        nv = EXC
    else:
        try:
            nv = {'-': lambda: -v, '+': lambda: +v, '~': lambda: ~v, 'not ': lambda: not v}[op]()
        except BaseException:
            nv = EXC
    return '%s(%s)' % (op, t), nv


@st.composite
def boundary_arith(draw):
    """Short expressions whose folded spelling is about as long as they are: one digit or compact literal, an operator, a compact literal.
    The "left alone when it would not get shorter" rule is decided on the one or two characters these differ by."""
    tiny = [(str(i), i) for i in range(0, 10)] + [('10', 10), ('99', 99), ('1.', 1.0), ('.5', .5), ('1j', 1j)]
    enot = [('1e1', 1e1), ('1e2', 1e2), ('1e3', 1e3), ('1e4', 1e4), ('1e5', 1e5), ('1e6', 1e6), ('2e3', 2e3), ('5e4', 5e4), ('1e9', 1e9), ('1e-1', 1e-1), ('1e-2', 1e-2), ('1e-4', 1e-4)]
    lt, lv = draw(st.sampled_from(tiny + tiny + COMPACT + enot))
    rt, rv = draw(st.sampled_from(enot + enot + COMPACT + tiny))
    for _ in range(4):
        op = draw(st.sampled_from(['+', '-', '-', '*', '//', '%', '<<', '|', '&', '^', '>>']))
        v = bounded(op, lv, rv)
        if isinstance(v, str) and v == 'TOOBIG':
            continue
        return '%s%s%s' % (lt, op, rt), v
    return '1-1e4', 1 - 1e4


# contexts in which the printed operand needs parentheses or not depending on what it is
PRECEDENCE_CONTEXTS = ['p{i} = ({E}) ** z', 'p{i} = z ** ({E})', 'u{i} = -({E})', 'v{i} = ~({E})', 'a{i} = ({E}).real', 'v{i} = ({E}) * x', 'v{i} = x - ({E})', 'v{i} = x / ({E})',
                       'w{i} = a < ({E}) < b', 'v{i} = x[{E}]', 's{i} = f"{E}"', 'n{i} = not ({E})', 'v{i} = ({E})[0]', 'v{i} = ({E})(x)', 'v{i} = -({E}) ** 2',
                       'v{i} = (({E}) ** 2) ** x', 'v{i} = x ** -({E})', 'v{i} = ({E}) @ x', 'v{i} = x if ({E}) else y', 'v{i} = ({E}) % x']


CONTEXTS = [
    'v{i} = {E}', 'f({E})', 'f(k={E})', 'x[{E}]', 'x[{E}:{E2}]', 'def g{i}(a={E}): pass', '@deco({E})\ndef h{i}(): pass',
    'def r{i}():\n    return {E}', 's{i} = f"{E}"', 'c{i} = [{E} for q in y if {E2}]', 'a{i} = ({E}).real', 'u{i} = -({E})',
    'n{i} = not ({E})', 'p{i} = ({E}) ** z', 'p{i} = z ** ({E})', 'w{i} = a < ({E}) < b', 'd{i} = {{E}: 1}', 'l{i} = lambda: {E}',
    'assert {E}, {E2}', 'w{i} = ({E}, {E2})', 'if {E}:\n    pass', 'while {E}:\n    break', 'v{i} = {E} if {E2} else 0', 'v{i} = ~({E})',
    'v{i} = ({E}) * x', 'v{i} = x - ({E})', 'v{i}: int = {E}', 'class K{i}(b, metaclass={E}): pass', 'v{i} = [{E}][0]', 'print({E}, {E2})',
    'v{i} = x.attr[{E}]', 'for q in range({E}):\n    pass', 'v{i} = ({E}).__class__', 'del x[{E}]', 'v{i} += {E}', 'raise E({E})',
]
MATCH_CONTEXT = 'match {E}:\n    case _:\n        pass'


@st.composite
def fold_modules(draw, level=(3, 12)):
    n = draw(st.integers(1, 6))
    parts = []
    values = []
    for i in range(n):
        ctx = draw(st.sampled_from(CONTEXTS + ([MATCH_CONTEXT] if level >= (3, 10) else [])))
        if level < (3, 6) and ('f"' in ctx or ': int' in ctx or 'metaclass' in ctx):
            ctx = 'v{i} = {E}'
        boundary = level >= (3, 6) and draw(st.integers(0, 3)) == 0
        if boundary:
            e, v = draw(boundary_arith())
            if draw(st.integers(0, 3)) > 0:
                ctx = draw(st.sampled_from(PRECEDENCE_CONTEXTS))
        else:
            e, v = draw(arith())
        e2, v2 = draw(arith(maxdepth=2))
        if level < (3, 5):
            e = e.replace('@', '*')
            e2 = e2.replace('@', '*')
        parts.append(ctx.replace('{i}', str(i)).replace('{E2}', e2).replace('{E}', e))
        values.append('raises' if v is EXC else type(v).__name__)
    return '\n'.join(parts) + '\n', values


# -- runnable contexts: the value of E is captured where it is evaluated and printed as type + repr ---------------------------
# Each template is a block that appends to R; {E} and {F} are literal-only expressions ({F} is often the same text as {E}, so that
# a folded result occurs twice and literal hoisting has a reason to bind it to a name).
RUN_CONTEXTS = [
    ('module-assign', 'v{i} = {E}\nrec({i}, v{i}, {F})'),
    ('def-default', 'def g{i}(a={E}, b={F}):\n    return a, b\nrec({i}, *g{i}())'),
    ('def-kwonly-default', 'def g{i}(*, a={E}, b={F}):\n    return a, b\nrec({i}, *g{i}())'),
    ('nested-def-default', 'def outer{i}():\n    local_value = 3000\n    other_local = local_value + 1\n    def inner(flag={E}, strict={F}):\n        return flag, strict\n    return inner() + (local_value, other_local)\nrec({i}, *outer{i}())'),
    ('lambda-default', 'h{i} = lambda a={E}, b={F}: (a, b)\nrec({i}, *h{i}())'),
    ('nested-lambda-default', 'def outer{i}(seed_value):\n    scaled = seed_value * 2\n    return (lambda a={E}, *, b={F}: (a, b, scaled))()\nrec({i}, *outer{i}(21))'),
    ('decorator-arg', 'def deco{i}(*values):\n    def wrap(func):\n        func.values = values\n        return func\n    return wrap\n@deco{i}({E}, {F})\ndef h{i}():\n    pass\nrec({i}, *h{i}.values)'),
    ('nested-decorator-arg', 'def outer{i}():\n    def deco(*values):\n        return lambda func: values\n    @deco({E}, {F})\n    def decorated():\n        pass\n    return decorated\nrec({i}, *outer{i}())'),
    ('class-attr', 'class K{i}:\n    attr_one = {E}\n    attr_two = {F}\nrec({i}, K{i}.attr_one, K{i}.attr_two)'),
    ('method-default', 'class K{i}:\n    def method(self, a={E}, b={F}):\n        return a, b\nrec({i}, *K{i}().method())'),
    ('class-in-def', 'def outer{i}():\n    class Local:\n        attr_one = {E}\n        def method(self, a={F}):\n            return a, self.attr_one\n    return Local().method()\nrec({i}, *outer{i}())'),
    ('return', 'def r{i}():\n    first_local = {E}\n    return first_local, {F}\nrec({i}, *r{i}())'),
    ('comprehension', 'c{i} = [({E}, q) for q in range(2) if {F} or True]\nrec({i}, *c{i})'),
    ('nested-comprehension', 'def outer{i}():\n    return [{E} for q in range(1)] + [{F} for q in range(1)]\nrec({i}, *outer{i}())'),
    ('generator-closure', 'def outer{i}():\n    total = 5\n    def gen():\n        yield {E}\n        yield {F}\n        yield total\n    return list(gen())\nrec({i}, *outer{i}())'),
    ('fstring', 's{i} = f"{{E}}|{{F}!r}"\nrec({i}, s{i})'),
    ('dict-key', 'd{i} = {{E}: 1, 2: {F}}\nrec({i}, *d{i}.items())'),
    ('call-args', 'def f{i}(*args, **kwargs):\n    return args + tuple(sorted(kwargs.items()))\nrec({i}, *f{i}({E}, k={F}))'),
    ('global-in-def', 'def w{i}():\n    global z{i}\n    z{i} = {E}\n    return {F}\nrec({i}, w{i}(), z{i})'),
    ('async-default', 'async def co{i}(a={E}, *, b={F}):\n    return a, b\ntry:\n    co{i}().send(None)\nexcept StopIteration as stop{i}:\n    rec({i}, *stop{i}.value)'),
    ('conditional', 'rec({i}, 1 if {E} else 2, {F})'),
    ('subscript', 'rec({i}, list(range(10))[{E}:{F}])'),
    ('compare-chain', 'rec({i}, 0 <= ({E}) <= 10 ** 30, {F})'),
    ('annotated', 'n{i}: int = {E}\nrec({i}, n{i}, {F})'),
]
RUN_PRELUDE = '''R = []
def rec(tag, *values):
    R.append((tag, [(type(v).__name__, repr(v)) for v in values]))
'''


@st.composite
def bool_arith(draw):
    """Literal-only expressions that fold to a bool (the constants literal hoisting also handles)."""
    a, b = draw(st.booleans()), draw(st.booleans())
    op = draw(st.sampled_from(['&', '|', '^']))
    t = '%r %s %r' % (a, op, b)
    if draw(st.booleans()):
        c = draw(st.booleans())
        op2 = draw(st.sampled_from(['&', '|', '^']))
        t = '(%s) %s %r' % (t, op2, c)
    return t


@st.composite
def runnable_fold_modules(draw, level=(3, 12)):
    n = draw(st.integers(1, 4))
    parts = [RUN_PRELUDE]
    kinds = []
    shared = draw(st.one_of(bool_arith(), arith(maxdepth=3).map(lambda tv: tv[0])))
    for i in range(n):
        kind, tmpl = draw(st.sampled_from(RUN_CONTEXTS))
        if level < (3, 8) and kind in ('fstring', 'annotated', 'async-default', 'def-kwonly-default', 'nested-lambda-default'):
            kind, tmpl = RUN_CONTEXTS[0]
        r = draw(st.integers(0, 9))
        if r < 3:
            e = f = shared
        elif r < 6:
            e = f = draw(bool_arith())
        elif r < 8:
            e = draw(arith(maxdepth=3))[0]
            f = e
        else:
            e = draw(arith(maxdepth=3))[0]
            f = draw(arith(maxdepth=2))[0]
        block = tmpl.replace('{i}', str(i)).replace('{{E}', '{(' + e + ')').replace('{E}', '(' + e + ')').replace('{{F}', '{(' + f + ')').replace('{F}', '(' + f + ')')
        parts.append('try:\n' + '\n'.join('    ' + ln for ln in block.split('\n')) + '\nexcept Exception as error%d:\n    rec(%d, type(error%d))\n' % (i, i, i))
        kinds.append(kind)
    parts.append('print(R)\n')
    return ''.join(parts), kinds
