"""Valid sources with one generated edit that (usually) makes them unparseable."""
import io
import tokenize

from hypothesis import strategies as st

from . import progs

SEEDS = [
    "import os\nimport sys\ndef f(a, b=1, *c, d, **e):\n    '''doc'''\n    if a:\n        return b\n    else:\n        pass\n    return None\n",
    "class A(object):\n    x: int = 1\n    def m(self):\n        raise ValueError()\n",
    "x = [i for i in range(10) if i % 2]\ny = {'a': 1, **z}\nprint(f'{x!r:>{y}} text')\n",
    "try:\n    pass\nexcept (A, B) as e:\n    raise\nfinally:\n    x = 1 if y else 2\n",
    "with open('f') as f, g() as h:\n    data = f.read()\nlambda a, /, b: (yield)\n",
    "async def f():\n    async with a as b:\n        await c\n    async for i in j:\n        yield i\n",
    "match x:\n    case [1, 2, *rest]:\n        pass\n    case {'k': v, **kw}:\n        pass\n    case Point(x=0) | None:\n        pass\n",
    "# -*- coding: utf-8 -*-\ns = 'h\\xe9llo' + \"q\" + b'bytes'.decode()\nassert s, 'msg'\nglobal g\n",
    "#!/usr/bin/env python\n\"\"\"doc\"\"\"\nfrom __future__ import annotations\nx = 0x1f + 0o17 + 0b11 + 1_000 + 1e5 + 2j\n",
    "def f():\n\tif x:\n\t\treturn (a :=\n\t\t\t1)\n\tnonlocal_like = 1\n",
]


def _tokens(src):
    try:
        return list(tokenize.generate_tokens(io.StringIO(src).readline))
    except Exception:
        return []


@st.composite
def broken_sources(draw):
    if draw(st.integers(0, 3)) == 0:
        src = draw(progs.programs(profile='syntax', size=6)).source + '\n'
    else:
        src = draw(st.sampled_from(SEEDS))
    edit = draw(st.sampled_from(['delete_token', 'duplicate_token', 'swap_tokens', 'unbalance', 'indent', 'tabs',
                                 'truncate', 'bad_escape', 'nul', 'surrogate', 'bad_utf8', 'bad_cookie',
                                 'insert_char', 'bytes_ok', 'none']))
    toks = _tokens(src)
    lines = src.split('\n')
    if edit in ('delete_token', 'duplicate_token', 'swap_tokens') and len(toks) > 3:
        i = draw(st.integers(0, len(toks) - 3))
        t = toks[i]
        (r, c), (r2, c2) = t.start, t.end
        if r == r2 and r - 1 < len(lines) and t.string:
            ln = lines[r - 1]
            if edit == 'delete_token':
                lines[r - 1] = ln[:c] + ln[c2:]
            elif edit == 'duplicate_token':
                lines[r - 1] = ln[:c2] + ' ' + t.string + ln[c2:]
            else:
                n = toks[i + 1]
                if n.start[0] == r and n.end[0] == r and n.string:
                    lines[r - 1] = ln[:c] + n.string + ln[c2:n.start[1]] + t.string + ln[n.end[1]:]
        return '\n'.join(lines), edit
    if edit == 'unbalance':
        ch = draw(st.sampled_from('()[]{}'))
        pos = draw(st.integers(0, len(src)))
        return src[:pos] + ch + src[pos:], edit
    if edit == 'indent':
        i = draw(st.integers(0, len(lines) - 1))
        lines[i] = draw(st.sampled_from([' ', '   ', '\t', '        '])) + lines[i]
        return '\n'.join(lines), edit
    if edit == 'tabs':
        return src.replace('    ', '\t', draw(st.integers(1, 3))), edit
    if edit == 'truncate':
        return src[:draw(st.integers(0, len(src)))], edit
    if edit == 'bad_escape':
        pos = draw(st.integers(0, len(src)))
        return src[:pos] + draw(st.sampled_from(["'\\x'", "'\\N{nope}'", "b'\\xg'", "'\\u12'", "'''", '"\\', "f'{'", "f'{a!z}'", "f'}'"])) + src[pos:], edit
    if edit == 'nul':
        pos = draw(st.integers(0, len(src)))
        return src[:pos] + '\0' + src[pos:], edit
    if edit == 'surrogate':
        pos = draw(st.integers(0, len(src)))
        return src[:pos] + '\ud800' + src[pos:], edit
    if edit == 'insert_char':
        pos = draw(st.integers(0, len(src)))
        return src[:pos] + draw(st.sampled_from(['$', '?', '`', '!', '\\', '\x0c', '\xa0', '€', '"', "'", ';;', '0x', '1_', '.e', '@'])) + src[pos:], edit
    b = src.encode('utf-8')
    if edit == 'bad_utf8':
        pos = draw(st.integers(0, len(b)))
        return b[:pos] + draw(st.sampled_from([b'\xff', b'\xc3', b'\xe2\x82', b'\x80'])) + b[pos:], edit
    if edit == 'bad_cookie':
        return draw(st.sampled_from([b'# coding: no-such-codec\n', b'# -*- coding: utf-8 -*-\n\xff', b'\xef\xbb\xbf# coding: latin-1\n', b'# coding: latin-1\n# \xe9\n'])) + b, edit
    if edit == 'bytes_ok':
        return b, edit
    return src, edit
