"""Inputs hostile to the quoting logic (C12): strings/bytes/f-strings/format specs built from quote characters,
backslashes, braces, newlines, NUL, prefixes and payload fragments that would import a canary module if executed."""
from hypothesis import strategies as st

CANARY = 'verif_canary_7'
FRAGS = ["'", '"', "'''", '"""', '\\', '\\\\', '\n', '\r', '{', '}', '{{', '}}', '\0', 'b', 'f', 'r', 'rb', 'u', ' ', 'x=', '=', '!r', ':', '#',
         "'+__import__(\"%s\")+'" % CANARY, "\"+__import__('%s')+\"" % CANARY, '"""+__import__("%s")+"""' % CANARY,
         "'''+__import__('%s')+'''" % CANARY, '\\N{BULLET}', "{__import__('%s')}" % CANARY, '__import__("%s")' % CANARY,
         ");import %s;(" % CANARY, "\nimport %s\n" % CANARY, "\\'+__import__('%s')+\\'" % CANARY, "\\\"", "\\'", '\\\n',
         "' if __import__('%s') else '" % CANARY, '"\' or __import__("%s") or \'"' % CANARY, 'a', 'é', '\ud800', '\x85', ' ', '\x0c',
         '\\x27', "%s" % CANARY, "}'+__import__('%s')+f'{" % CANARY, '{0}', '%s', "'''\"\"\"", "\"\"\"'''"]
BFRAGS = [f.encode('utf-8', 'surrogatepass') if '\ud800' not in f else b'\xed\xa0\x80' for f in FRAGS] + [b'\xff', b'\x80']


@st.composite
def breaker_str(draw):
    """The classic attack on a printer that tries several spellings of a literal: text that stays inside the literal under the correct
    escaping but falls outside it if a backslash, a quote or a prefix is mishandled - [filler] [backslashes] quote PAYLOAD quote [comment]."""
    q1 = draw(st.sampled_from(["'", '"', "'''", '"""']))
    q2 = draw(st.sampled_from(["'", '"', "'''", '"""', '']))
    pre = ''.join(draw(st.lists(st.sampled_from(['\\d', '\\', '\\\\', 'a', ' ', '{', '}', 'r', 'b', '\\N{BULLET}', 'é']), max_size=3)))
    mid = draw(st.sampled_from(['\\', '', '\\\\', '\\\\\\']))
    payload = draw(st.sampled_from(['+x+', '+str(1)+', ' or x or ', ',x,', ' if x else ', '+__import__("%s")+' % CANARY, ';import %s;' % CANARY, ')+(x)+(',
                                    '+__import__(chr(118))+', ' and x.y and ', '.x+', '[x]+', '%x%', '+f()+']))
    tail = draw(st.sampled_from(['#', '', '\\', '#' + q1, q1, '\n', '#' + q2, ' #']))
    return pre + mid + q1 + payload + q2 + tail


def hostile_str(max_parts=5):
    return st.one_of(st.lists(st.sampled_from(FRAGS), min_size=0, max_size=max_parts).map(''.join),
                     st.lists(st.sampled_from(FRAGS), min_size=0, max_size=max_parts).map(''.join),
                     breaker_str())


def hostile_bytes(max_parts=5):
    return st.one_of(st.lists(st.sampled_from(BFRAGS), min_size=0, max_size=max_parts).map(b''.join),
                     st.lists(st.sampled_from(BFRAGS), min_size=0, max_size=max_parts).map(b''.join),
                     breaker_str().map(lambda t: t.encode('utf-8')))


def fliteral(s, q='"'):
    """Spell the literal text `s` of an f-string delimited by q (single character), valid on every f-string interpreter."""
    out = []
    for c in s:
        o = ord(c)
        if c in '{}':
            out.append(c * 2)
        elif c == q or c == '\\' or o < 32 or o == 127 or 0xD800 <= o <= 0xDFFF or o in (0x85, 0x2028, 0x2029):
            out.append('\\x%02x' % o if o < 256 else '\\u%04x' % o)
        else:
            out.append(c)
    return ''.join(out)


@st.composite
def hostile_modules(draw, pep701=True):
    """Source text of a module full of hostile literals. pep701=False keeps to what every f-string interpreter parses
    (no backslash and no outer quote inside expression parts)."""
    lines = []
    for i in range(draw(st.integers(1, 5))):
        k = draw(st.integers(0, 9))
        s = draw(hostile_str())
        if k == 0:
            lines.append('v%d = %r' % (i, s))
        elif k == 1:
            lines.append('v%d = %r' % (i, draw(hostile_bytes())))
        elif k == 2:
            # f-string literal text + a field
            lines.append('v%d = f"%s{name}%s"' % (i, fliteral(s), fliteral(draw(hostile_str(3)))))
        elif k == 3:
            # debug specifier look-alike and conversions
            lines.append('v%d = f"%s={name!r}%s"' % (i, fliteral(draw(hostile_str(2))), fliteral(s)))
        elif k in (4, 5, 6):
            # nested string / bytes literal inside the expression part
            inner = draw(st.one_of(hostile_str(4), hostile_bytes(4)))
            if pep701:
                r = repr(inner)
            else:
                r = repr(inner)
                if '\\' in r or '"' in r or '\n' in r:
                    inner = inner.replace('\\', '').replace('"', '').replace('\n', '').replace('\r', '').replace('\0', '') if isinstance(inner, str) else b'safe'
                    r = repr(inner)
                    if '\\' in r or '"' in r:
                        r = "'safe'"
            depth = draw(st.integers(1, 3))
            expr = r
            if depth >= 2:
                expr = '[%s, {%s: %s}][0]' % (r, r, r)
            if depth >= 3 and pep701:
                expr = "f'{%s}' + %s" % (r, r)
            conv = draw(st.sampled_from(['', '!r', '!s', '!a']))
            lines.append('v%d = f"%s{%s%s}"' % (i, fliteral(draw(hostile_str(2))), expr, conv))
        elif k == 7:
            # format spec with literal text and a nested field
            # braces cannot be escaped inside a format spec ('{{' opens a nested field there), so keep them out of the literal text
            raw = draw(hostile_str(3)).replace('{', '').replace('}', '')
            spec = fliteral(raw).replace('\\', '') if not pep701 else fliteral(raw)
            lines.append('v%d = f"{name:%s{width}}"' % (i, spec))
        elif k == 8 and draw(st.booleans()):
            # arithmetic whose operands are unary operators over non-literals, next to literals (folder operand test)
            atoms = ['__import__("%s")' % CANARY, 'len("ab")', 'x', 'open("%s", "w").write("x")' % CANARY, '__import__("%s").x' % CANARY, 'f()', '(lambda: 1)()']
            def operand():
                r = draw(st.integers(0, 5))
                if r == 0:
                    return draw(st.sampled_from(['1', '2.5', 'True', '10', '0x10', '3j']))
                if r == 1:
                    return '-' + draw(st.sampled_from(['1', '2.5', '10']))
                return draw(st.sampled_from(['-', '~', '+', 'not ', '- -', '-~'])) + draw(st.sampled_from(atoms))
            op = draw(st.sampled_from(['+', '-', '*', '%', '<<', '|', '&', '^', '//', '>>', '@']))
            lines.append('v%d = %s %s %s' % (i, operand(), op, operand()))
        elif k == 8:
            # numeric payloads for the folder
            lines.append('v%d = %s' % (i, draw(st.sampled_from(['1 .__class__', '(1).real + 2', '1 + 2 * 3', 'True + True', '2 ** 8 - 1', '1 if 2 else 3',
                                                                '0x10 + 0o7', '1e3 * 2', '"a" * 3', '1 + __import__("%s").x' % CANARY, '(1, 2)[0] + 3',
                                                                '1 + (lambda: 2)()', 'len("ab") + 1', '1e999 + 2j', '2j * 1e999', '(1e999 - 1e999) + 1j', '1e999j - 1e999j', '1 + 1e999', '1e999 - 1e999',
                                                                '0x1f + 0o17 + 1e999 + 2j', '-1e999 - 2j', '1e999 * 0 + 0j']))))
        elif k == 9 and draw(st.booleans()):
            # the names whose values the minifier looks at (a literal __all__ is read to keep exported names): anything that is not a plain
            # string literal there is input text like any other
            payload = draw(st.sampled_from(['__import__("%s")' % CANARY, 'open("%s", "w")' % CANARY, 'dir()', 'f()', 'x', '[n for n in dir()]', '__import__("%s").names' % CANARY,
                                            '(lambda: "a")()', 'str(1)', '"a".upper()']))
            form = draw(st.sampled_from(['__all__ = ["a"] + [%s]', '__all__ = ["a"] + %s', '__all__ = [%s]', '__all__ = ("a", %s)', '__all__ += [%s]', '__all__: list = ["a"] + [%s]',
                                         '__all__ = ["a"] * %s', '__all__ = [*%s, "a"]', '__all__ = ["a", "b"][%s:]', '__slots__ = ("a",) + (%s,)', '__all__ = list(%s)']))
            lines.append(form % payload)
        else:
            lines.append('d%d = {%r: %r, f"%s": 1}' % (i, s, draw(hostile_bytes(3)), fliteral(draw(hostile_str(2)))))
    return '\n'.join(lines) + '\n'
