"""G-run: runnable, terminating, deterministic programs (text), tracking the kind of every name.

Output is produced only through print(repr(<data-kind expression>)) and handlers that print type(e).__name__.
The documented reflective views (names of locals, annotations, line numbers, function/class reprs) are never printed.
"""
from hypothesis import strategies as st

STR_POOL = ['alpha beta gamma', 'repeated literal text', 'k', 'name', '', 'x', 'hello world', 'a', 'Z9', 'value=%s', '{}', 'été', 'tab\there', "q'uote", 'line\nbreak']
BYTES_POOL = [b'bytes literal', b'', b'ab', b'\x00\xff']
INT_NAMES = ['counter_total', 'item_index', 'alpha_value', 'n', 'width_value', 'A', 'abs', 'B']
STR_NAMES = ['text_value', 'label_name', 'message', 's', 'C', 'chr']
LIST_NAMES = ['result_list', 'items_seq', 'data', 'D', 'ord']
DICT_NAMES = ['config_data', 'mapping', 'table']
FUNC_NAMES = ['helper_func', 'compute_value', 'make_thing', 'process', 'E', 'transform']
CLASS_NAMES = ['Widget', 'Record', 'Holder', 'F']
PARAM_NAMES = ['first_arg', 'second_arg', 'other', 'flag', 'x', 'y', 'a', 'b', 'self_like', 'A', 'value']
EXCS = ['ValueError', 'KeyError', 'TypeError', 'IndexError', 'RuntimeError', 'ZeroDivisionError', 'AttributeError', 'StopIteration',
        'LookupError', 'ArithmeticError', 'Exception', 'NotImplementedError', 'OSError', 'AssertionError', 'UnboundLocalError', 'NameError']


FLOAT_LITS = ['10.0', '20.0', '120.0', '250.0', '0.5', '1.0', '100.0', '1000.0', '1e3', '1e16', '1.5e-07', '0.0', '2.5', '1e100', '123456789.0', '1000000.0', '1200.0', '0.1',
              '3.14159', '1e-05', '0.001', '5.0', '1e22', '1e23', '9007199254740993.0', '.5', '5.', '1_000.0', '0.30000000000000004', '1e308', '1e999', '4.9e-324', '12345.678']
COMPLEX_LITS = ['1j', '10.0j', '0j', '2.5j', '1e3j', '(1+2j)', '(10.0-20.0j)', '1e999j']


class G(object):
    def __init__(self, draw, level=(3, 12)):
        self.d = draw
        self.level = level
        self.lines = []
        self.ind = 0
        self.scopes = [{'int': [], 'str': [], 'list': [], 'dict': [], 'func': [], 'class': [], 'inst': [], 'bytes': []}]
        self.in_func = 0
        self.in_loop = 0
        self.fuel = 0
        self.budget = draw(st.sampled_from([8, 14, 20, 30]))
        self.chaos = draw(st.integers(0, 9)) == 0
        self.features = set()
        self.uid = 0
        self.user_excs = []
        self.cm_class = None
        self.imports = {}
        self.cond_depth = 0

    # -- helpers -------------------------------------------------------------------------------
    def i(self, lo, hi):
        return self.d(st.integers(lo, hi))

    def p(self, prob):
        return self.d(st.integers(0, 99)) < int(prob * 100)

    def ch(self, seq):
        return seq[self.d(st.integers(0, len(seq) - 1))]

    def emit(self, line):
        self.lines.append('    ' * self.ind + line)

    def names(self, kind):
        out = []
        for s in self.scopes:
            out += s[kind]
        return out

    def define(self, kind, name, info=None):
        sc = self.scopes[-1]
        # a name has one kind at a time in a scope
        for k in sc:
            sc[k] = [x for x in sc[k] if (x[0] if isinstance(x, tuple) else x) != name]
        sc[kind].append((name, info) if info is not None else name)

    def fresh(self, pool):
        self.uid += 1
        n = self.ch(pool)
        if self.p(0.3):
            n = n + str(self.uid)
        return n

    # -- expressions by kind -------------------------------------------------------------------
    def int_lit(self):
        return str(self.ch([0, 1, 2, 3, 5, 7, 10, 16, 42, 100, 255, 1000, 65536, 10 ** 9, 2 ** 40]))

    def int_expr(self, depth=0):
        r = self.i(0, 15)
        ints = self.names('int')
        if depth > 2 or r < 3:
            if ints and self.p(0.6):
                return self.ch(ints)
            return self.int_lit()
        if r < 6:
            return '(%s %s %s)' % (self.int_expr(depth + 1), self.ch(['+', '-', '*', '%', '//', '&', '|', '^']), self.int_expr(depth + 1)) \
                if not self.chaos else '(%s %s %s)' % (self.int_expr(depth + 1), self.ch(['+', '-', '*', '//', '%']), self.int_expr(depth + 1))
        if r < 7:
            # literal arithmetic (constant folding fodder)
            self.features.add('literal_arith')
            return '(%s %s %s)' % (self.int_lit(), self.ch(['+', '-', '*', '<<', '|', '&']), self.ch(['1', '2', '3', '8', '10']))
        if r < 8:
            ls = self.names('list')
            if ls:
                return 'len(%s)' % self.ch(ls)
            return 'len(%s)' % self.str_expr(depth + 1)
        if r < 10:
            c = self.call_expr('int', depth)
            if c:
                return c
            return self.int_lit()
        if r < 11:
            self.cond_depth += 1
            try:
                return '(%s if %s else %s)' % (self.int_expr(depth + 1), self.cond(depth + 1), self.int_expr(depth + 1))
            finally:
                self.cond_depth -= 1
        if r < 12:
            self.features.add('comprehension')
            v = self.fresh(['q', 'item', 'elem', 'A'])
            return 'sum(%s for %s in %s%s)' % (v if self.p(0.5) else '%s * 2' % v, v, self.list_expr(depth + 1), ' if %s %% 2' % v if self.p(0.3) else '')
        if r < 13:
            self.features.add('lambda')
            pn = self.ch(PARAM_NAMES)
            return '(lambda %s: %s + 1)(%s)' % (pn, pn, self.int_expr(depth + 1))
        if r < 14 and self.level >= (3, 8):
            self.features.add('walrus')
            n = self.fresh(INT_NAMES)
            value = self.int_expr(depth + 1)
            if self.cond_depth == 0:
                self.define('int', n)
            return '(%s := %s)' % (n, value)
        if r < 15:
            ds = self.names('dict')
            if ds:
                return '%s.get(%r, %s)' % (self.ch(ds), self.ch(STR_POOL[:4]), self.int_lit())
        insts = self.names('inst')
        if insts:
            nm, attrs = self.ch(insts)
            if attrs:
                return '%s.%s' % (nm, self.ch(attrs))
        return self.int_lit()

    def str_lit(self):
        return repr(self.ch(STR_POOL))

    def str_expr(self, depth=0):
        r = self.i(0, 11)
        strs = self.names('str')
        if depth > 2 or r < 3:
            if strs and self.p(0.6):
                return self.ch(strs)
            return self.str_lit()
        if r < 5:
            return '(%s + %s)' % (self.str_expr(depth + 1), self.str_expr(depth + 1))
        if r < 7:
            self.features.add('fstring')
            parts = ''
            for _ in range(self.i(1, 3)):
                if self.p(0.4):
                    parts += self.ch(['v=', ' ', 'x: ', '[', ']', '{{', '}}', '#'])
                else:
                    e = self.int_expr(depth + 1) if self.p(0.5) else self.str_expr(depth + 1)
                    if '"' in e or '\\' in e or "'" in e or '\n' in e:
                        e = self.ch(self.names('int') or ['1'])
                    parts += '{%s%s%s}' % (e, self.ch(['', '', '!r', '!s']), self.ch(['', '', ':>6', ':<4']))
            return 'f"%s"' % parts
        if r < 8:
            return '%s.%s()' % (self.str_expr(depth + 1), self.ch(['upper', 'lower', 'strip', 'title']))
        if r < 9:
            return 'str(%s)' % self.int_expr(depth + 1)
        if r < 10:
            c = self.call_expr('str', depth)
            if c:
                return c
        if r < 11:
            return '%r.join(sorted(str(z) for z in %s))' % (self.ch(['-', ',', '']), self.list_expr(depth + 1))
        return '(%s * %s)' % (self.str_lit(), self.ch(['0', '1', '2', '3']))

    def list_expr(self, depth=0):
        r = self.i(0, 9)
        ls = self.names('list')
        if depth > 2 or r < 3:
            if ls and self.p(0.6):
                return self.ch(ls)
            return '[%s]' % ', '.join(self.int_lit() for _ in range(self.i(0, 4)))
        if r < 5:
            self.features.add('comprehension')
            v = self.fresh(['q', 'item', 'elem', 'B', 'n'])
            cond = ' if %s > %s' % (v, self.int_lit()) if self.p(0.4) else ''
            return '[%s for %s in %s%s]' % (self.ch(['%s' % v, '%s + 1' % v, '%s * %s' % (v, v), '%s - 1' % v]), v, self.list_expr(depth + 1), cond)
        if r < 6:
            return 'list(range(%s))' % self.ch(['0', '1', '2', '3', '4'])
        if r < 7:
            return 'sorted(%s)' % self.list_expr(depth + 1)
        if r < 8:
            return '(%s + %s)' % (self.list_expr(depth + 1), self.list_expr(depth + 1))
        if r < 9:
            return '[*%s, %s]' % (self.list_expr(depth + 1), self.int_expr(depth + 1))
        return '[%s, %s]' % (self.int_expr(depth + 1), self.int_expr(depth + 1))

    def dict_expr(self, depth=0):
        r = self.i(0, 5)
        ds = self.names('dict')
        if ds and r < 2:
            return self.ch(ds)
        if r < 4:
            items = ', '.join('%s: %s' % (self.str_lit(), self.int_expr(depth + 1)) for _ in range(self.i(0, 3)))
            return '{%s}' % items
        if r < 5 and ds:
            return '{**%s, %s: %s}' % (self.ch(ds), self.str_lit(), self.int_expr(depth + 1))
        v = self.fresh(['key', 'k', 'C'])
        return '{str(%s): %s for %s in %s}' % (v, v, v, self.list_expr(depth + 1))

    def cond(self, depth=0):
        r = self.i(0, 7)
        if r < 3:
            return '%s %s %s' % (self.int_expr(depth + 1), self.ch(['<', '>', '==', '!=', '<=', '>=']), self.int_expr(depth + 1))
        if r < 4:
            return '%s in %s' % (self.int_expr(depth + 1), self.list_expr(depth + 1))
        if r < 5:
            return 'not %s' % self.str_expr(depth + 1)
        if r < 6:
            self.cond_depth += 1
            try:
                return '(%s %s %s)' % (self.cond(depth + 1), self.ch(['and', 'or']), self.cond(depth + 1))
            finally:
                self.cond_depth -= 1
        if r < 7:
            return self.ch(['True', 'False', 'None', '0', '1'])
        return '%s is %s' % (self.ch(self.names('int') or ['None']), self.ch(['None', 'True']))

    def data_expr(self, depth=0):
        k = self.ch(['int', 'int', 'str', 'str', 'list', 'dict', 'cond', 'bytes'])
        if k == 'int':
            return self.int_expr(depth)
        if k == 'str':
            return self.str_expr(depth)
        if k == 'list':
            return self.list_expr(depth)
        if k == 'dict':
            return self.dict_expr(depth)
        if k == 'bytes':
            bs = self.names('bytes')
            return self.ch(bs) if bs and self.p(0.5) else repr(self.ch(BYTES_POOL))
        return '(%s)' % self.cond(depth)

    def arg_for(self, kind, depth):
        return {'int': self.int_expr, 'str': self.str_expr, 'list': self.list_expr}.get(kind, self.int_expr)(depth + 1)

    def call_expr(self, want, depth=0):
        funcs = [f for f in self.names('func') if f[1]['ret'] == want]
        if not funcs:
            return None
        name, info = self.ch(funcs)
        return self.call_text(name, info, depth)

    def call_text(self, name, info, depth=0):
        """Call with positional, keyword and **{'name': value} arguments according to the parameter kinds."""
        args = []
        kws = []
        star = []
        for pn in info['posonly']:
            args.append(self.int_expr(depth + 1))
        mode = self.i(0, 3)
        for j, pn in enumerate(info['pos']):
            if mode == 0 or (mode == 1 and j == 0):
                if not kws and not star:
                    args.append(self.int_expr(depth + 1))
                else:
                    kws.append('%s=%s' % (pn, self.int_expr(depth + 1)))
            elif mode == 2:
                self.features.add('keyword_call')
                kws.append('%s=%s' % (pn, self.int_expr(depth + 1)))
            else:
                self.features.add('starstar_call')
                star.append('%r: %s' % (pn, self.int_expr(depth + 1)))
        for pn in info['defaulted']:
            r = self.i(0, 3)
            if r == 0:
                self.features.add('keyword_call')
                kws.append('%s=%s' % (pn, self.int_expr(depth + 1)))
            elif r == 1:
                self.features.add('starstar_call')
                star.append('%r: %s' % (pn, self.int_expr(depth + 1)))
        if info['vararg'] and not kws and not star and mode == 0 and self.p(0.5):
            args.append(self.int_expr(depth + 1))
            args.append('*%s' % self.list_expr(depth + 1))
        for pn in info.get('kwonly_required', []):
            if self.p(0.6):
                kws.append('%s=%s' % (pn, self.int_expr(depth + 1)))
            else:
                star.append('%r: %s' % (pn, self.int_expr(depth + 1)))
        for pn in info['kwonly']:
            r = self.i(0, 2)
            if r == 0:
                kws.append('%s=%s' % (pn, self.int_expr(depth + 1)))
            elif r == 1:
                star.append('%r: %s' % (pn, self.int_expr(depth + 1)))
        if info['kwarg'] and self.p(0.5):
            # not the name of a self/cls-like first parameter: that one is documented as renamable, a keyword colliding with it
            # is an error in the original that legitimately disappears
            key = self.ch([k for k in ['extra_key', 'zz', 'A', 'other_kw'] if k != info.get('first')])
            kws.append('%s=%s' % (key, self.int_expr(depth + 1)))
        allargs = args + kws + (['**{%s}' % ', '.join(star)] if star else [])
        return '%s(%s)' % (name, ', '.join(allargs))

    # -- statements ---------------------------------------------------------------------------------
    def block(self, n_lo=1, n_hi=3):
        # names defined in a block that may not run are forgotten afterwards (definedness tracking)
        self.ind += 1
        self.new_scope()
        start = len(self.lines)
        for _ in range(self.i(n_lo, n_hi)):
            self.stmt()
        if len(self.lines) == start:
            self.emit('pass')
        self.scopes.pop()
        self.ind -= 1

    def new_scope(self):
        self.scopes.append({'int': [], 'str': [], 'list': [], 'dict': [], 'func': [], 'class': [], 'inst': [], 'bytes': []})

    def stmt(self):
        self.budget -= 1
        deep = self.ind >= 3 or self.budget <= 0
        w = [(10, self.s_assign), (9, self.s_print), (3, self.s_aug), (2, self.s_pass), (2, self.s_call), (2, self.s_assert), (2, self.s_raise_guarded),
             (2, self.s_unpack), (1, self.s_del), (2, self.s_ann), (1, self.s_global_touch), (3, self.s_float)]
        if not deep:
            w += [(6, self.s_def), (3, self.s_class), (4, self.s_if), (3, self.s_for), (2, self.s_while), (4, self.s_try), (2, self.s_with), (2, self.s_import)]
            if self.level >= (3, 10):
                w.append((2, self.s_match))
        if self.in_func:
            w.append((3, self.s_return))
        if self.in_loop:
            w.append((1, self.s_break))
        total = sum(x for x, _ in w)
        r = self.i(0, total - 1)
        for x, f in w:
            if r < x:
                return f()
            r -= x

    def s_float(self):
        # float (and complex) literals: their printed spelling decides their type, so the value is shown with repr and used in
        # operations whose result type depends on it
        self.features.add('float')
        f = self.ch(FLOAT_LITS)
        g = self.ch(FLOAT_LITS)
        form = self.i(0, 4)
        if form == 0:
            self.emit('print(repr(%s), repr(%s))' % (f, g))
        elif form == 1:
            self.emit('print(repr(%s // %s), repr(%s * %s))' % (self.int_lit(), f if f not in ('0.0', '0.', '0e0') else '1.0', g, self.int_expr()))
        elif form == 2:
            v = self.fresh(['ratio_value', 'scale_float', 'E'])
            self.emit('%s = %s' % (v, f))
            self.emit('print(repr(%s), type(%s).__name__, repr(%s + %s))' % (v, v, v, g))
        elif form == 3:
            self.emit('print(repr([%s, %s, %s]))' % (f, g, self.ch(FLOAT_LITS)))
        else:
            self.emit('print(repr(%s), repr(-%s), repr((%s).is_integer()))' % (self.ch(COMPLEX_LITS), f, g))

    def s_pass(self):
        self.emit('pass')

    def s_break(self):
        self.emit('if %s:' % self.cond())
        self.emit('    ' + self.ch(['break', 'continue']))

    def s_assign(self):
        k = self.ch(['int', 'int', 'int', 'str', 'str', 'list', 'dict', 'bytes'])
        pool = {'int': INT_NAMES, 'str': STR_NAMES, 'list': LIST_NAMES, 'dict': DICT_NAMES, 'bytes': ['blob_value', 'raw']}[k]
        n = self.fresh(pool)
        e = {'int': self.int_expr, 'str': self.str_expr, 'list': self.list_expr, 'dict': self.dict_expr,
             'bytes': lambda: repr(self.ch(BYTES_POOL))}[k]()
        self.emit('%s = %s' % (n, e))
        self.define(k, n)

    def s_aug(self):
        ints = self.scopes[-1]['int']
        if ints:
            self.emit('%s %s= %s' % (self.ch(ints), self.ch(['+', '-', '*']), self.int_expr()))
        else:
            self.s_assign()

    def s_print(self):
        self.emit('print(repr(%s))' % self.data_expr())

    def s_call(self):
        funcs = self.names('func')
        if funcs:
            name, info = self.ch(funcs)
            self.emit('print(repr(%s))' % self.call_text(name, info))
        else:
            self.s_print()

    def s_assert(self):
        self.features.add('assert')
        if self.p(0.8):
            self.emit('assert %s == %s' % (self.ch(self.names('int') or ['1']), self.ch(self.names('int') or ['1'])) if False else 'assert True, %s' % self.str_lit())
        else:
            self.emit('try:')
            self.emit('    assert %s, %s' % (self.cond(), self.str_lit()))
            self.emit('except AssertionError as caught_error:')
            self.emit('    print(type(caught_error).__name__)')

    def s_raise_guarded(self):
        self.features.add('raise')
        exc = self.ch(EXCS[:13] + [e for e in self.user_excs])
        form = self.ch(['raise %s()', 'raise %s', 'raise %s(%s)', 'raise %s() from None', 'raise %s() from KeyError()', 'raise %s(*[])', 'raise %s(**{})',
                        'raise %s(*[1, 2])', 'KW'])
        if form == 'KW':
            # builtin exceptions called with keyword arguments only (the brackets must stay)
            txt = self.ch(["raise ImportError(name='module_name')", "raise ImportError(name='m', path='p')", 'raise SystemExit(code=3)',
                           "raise RuntimeError(**{'detail': 1})", "raise ImportError(**{'name': 'n'})", "raise ValueError() from ImportError(name='cause_name')"])
            exc = 'ImportError' if 'raise ImportError' in txt else 'Exception'
        else:
            txt = form % ((exc, self.str_lit()) if form.count('%s') == 2 else (exc,))
        self.emit('try:')
        self.emit('    if %s:' % self.cond())
        self.emit('        ' + txt)
        self.emit('    print(repr(%s))' % self.int_expr())
        self.emit('except %s as caught_error:' % self.ch([exc, 'Exception', 'BaseException', '(ValueError, KeyError, TypeError, ImportError)', exc]))
        # messages the interpreter writes (NameError, TypeError, AttributeError...) mention names of locals and local functions,
        # which are documented reflective views: only arguments the program itself passed (ints, pool strings) are shown
        self.emit('    print(type(caught_error).__name__, repr([a for a in caught_error.args if isinstance(a, int) or a in %r]), repr(getattr(caught_error, "name", None) if isinstance(caught_error, ImportError) else None), repr(getattr(caught_error.__cause__, "name", None) if isinstance(caught_error.__cause__, ImportError) else None))' % (tuple(STR_POOL),))

    def s_unpack(self):
        a = self.fresh(INT_NAMES)
        b = self.fresh(LIST_NAMES)
        self.emit('%s, *%s = %s + [%s]' % (a, b, self.list_expr(), self.int_lit()))
        self.define('int', a)
        self.define('list', b)

    def s_del(self):
        ints = list(self.scopes[-1]['int'])
        if len(ints) > 2:
            n = ints[0]
            self.emit('del %s' % n)
            self.scopes[-1]['int'].remove(n)
        else:
            self.s_pass()

    def s_ann(self):
        self.features.add('annotation')
        n = self.fresh(INT_NAMES)
        r = self.i(0, 3)
        if r == 0 and self.in_func:
            # a value-less annotated local that is later read -> UnboundLocalError (must stay a local)
            self.emit('%s: int' % n)
            self.emit('try:')
            self.emit('    print(repr(%s))' % n)
            self.emit('except NameError as caught_error:')
            self.emit('    print(type(caught_error).__name__)')
        else:
            self.emit('%s: %s = %s' % (n, self.ch(['int', "'ForwardRef'", 'list', 'None']), self.int_expr()))
            self.define('int', n)

    def s_global_touch(self):
        if self.in_func and self.scopes[0]['int'] and self.p(0.7):
            g = self.ch(self.scopes[0]['int'])
            if all(g not in (x if not isinstance(x, tuple) else x[0]) for sc in self.scopes[1:] for k in sc for x in sc[k]) and not any(('    ' * self.ind + '%s = ' % g) in ln for ln in self.lines[-6:]):
                pass
        self.s_print()

    def s_return(self):
        r = self.i(0, 5)
        if r == 0:
            self.emit('return')
        elif r == 1:
            self.emit('return None')
        else:
            self.emit('if %s:' % self.cond())
            self.emit('    return %s' % self.ret_expr())

    def ret_expr(self):
        k = self.cur_ret
        return {'int': self.int_expr, 'str': self.str_expr, 'list': self.list_expr}[k]()

    def s_if(self):
        self.emit('if %s:' % self.cond())
        self.block()
        if self.p(0.3):
            self.emit('elif %s:' % self.cond())
            self.block(1, 2)
        if self.p(0.4):
            self.emit('else:')
            self.block(1, 2)

    def s_for(self):
        v = self.fresh(['loop_index', 'i', 'element', 'A'])
        self.emit('for %s in %s:' % (v, self.ch(['range(%d)' % self.i(0, 4), self.list_expr(), '[%s]' % ', '.join(self.int_lit() for _ in range(self.i(0, 3)))])))
        self.in_loop += 1
        self.scopes[-1]['int'].append(v)
        self.block()
        self.in_loop -= 1
        if v in self.scopes[-1]['int']:
            self.scopes[-1]['int'].remove(v)
        if self.p(0.2):
            self.emit('else:')
            self.block(1, 1)

    def s_while(self):
        f = 'fuel_%d' % self.uid
        self.uid += 1
        self.emit('%s = %d' % (f, self.i(0, 3)))
        self.emit('while %s > 0:' % f)
        self.ind += 1
        self.emit('%s -= 1' % f)
        self.ind -= 1
        self.in_loop += 1
        self.block(1, 2)
        self.in_loop -= 1

    def s_try(self):
        self.features.add('try')
        self.emit('try:')
        self.block(1, 3)
        exc = self.ch(EXCS[:8])
        self.emit('except %s%s:' % (self.ch([exc, 'Exception', '(%s, TypeError)' % exc]), self.ch(['', ' as problem', ' as A', ' as caught_error'])))
        self.ind += 1
        self.emit('print(%r)' % ('handled ' + exc))
        self.ind -= 1
        if self.p(0.3):
            self.emit('else:')
            self.block(1, 1)
        if self.p(0.3):
            self.emit('finally:')
            self.block(1, 1)

    def ensure_cm(self):
        if self.cm_class is None and self.ind == 0:
            self.cm_class = 'ManagedResource'
            self.emit('class ManagedResource(object):')
            self.emit('    def __init__(self, tag_value):')
            self.emit('        self.tag_value = tag_value')
            self.emit('    def __enter__(self):')
            self.emit("        print('enter', self.tag_value)")
            self.emit('        return self.tag_value')
            self.emit('    def __exit__(self, exc_type, exc_value, traceback_obj):')
            self.emit("        print('exit', exc_type is None)")
            self.emit('        return %s' % self.ch(['False', 'True', 'None']))
        return self.cm_class

    def s_with(self):
        cm = self.ensure_cm()
        if cm is None:
            return self.s_print()
        self.features.add('with')
        v = self.fresh(INT_NAMES)
        items = '%s(%s) as %s' % (cm, self.int_expr(), v)
        if self.p(0.3):
            items += ', %s(%s)' % (cm, self.int_lit())
        self.emit('with %s:' % items)
        self.scopes[-1]['int'].append(v)
        self.block(1, 2)

    def s_import(self):
        self.features.add('import')
        r = self.i(0, 6)
        if r == 0:
            self.emit('import math')
            self.emit('import itertools')
            self.emit('print(repr(math.floor(%s / 2)), repr(list(itertools.islice(itertools.count(%s), 2))))' % (self.int_expr(), self.int_lit()))
        elif r == 1:
            self.emit('import collections as collections_alias')
            self.emit('print(repr(sorted(collections_alias.Counter(%s).items())))' % self.list_expr())
        elif r == 2:
            self.emit('from functools import reduce as fold_function, partial')
            self.emit('print(repr(fold_function(lambda acc, cur: acc + cur, %s, 0)))' % self.list_expr())
        elif r == 3:
            self.emit('import os.path')
            self.emit("print(repr(os.path.join('a', %s)))" % self.str_lit())
        elif r == 4:
            self.emit('import string')
            self.emit('import math as math_module')
            self.emit('print(repr(string.digits[:3]), repr(math_module.gcd(%s, 12)))' % self.int_lit())
        elif r == 5:
            self.emit('from collections import OrderedDict, namedtuple as make_tuple')
            self.emit("PointType = make_tuple('PointType', ['x_coord', 'y_coord'])")
            self.emit('print(repr(tuple(PointType(1, y_coord=%s))))' % self.int_lit())
        else:
            self.emit('from math import floor')
            self.emit('from math import ceil as ceiling')
            self.emit('print(repr(floor(2.5) + ceiling(2.5)))')

    def s_match(self):
        self.features.add('match')
        self.emit('match %s:' % self.ch([self.int_expr(), self.list_expr(), self.dict_expr(), self.str_expr()]))
        self.ind += 1
        for _ in range(self.i(1, 3)):
            pat = self.ch(['0', '1', '[first_item, *rest_items]', '[]', "{'k': captured_value}", 'str() as text_capture', 'int(number_capture)',
                           '[1, 2] | [3]', repr(self.ch(STR_POOL)), 'captured_any if captured_any', '-1', '(1 | 2) as small_value'])
            self.emit('case %s:' % pat)
            self.ind += 1
            caps = [c for c in ['first_item', 'rest_items', 'captured_value', 'text_capture', 'number_capture', 'captured_any', 'small_value'] if c in pat]
            self.emit('print(%r%s)' % ('case ' + pat[:12], ''.join(', repr(%s)' % c for c in caps)))
            self.ind -= 1
        self.emit('case _:')
        self.emit("    print('no match')")
        self.ind -= 1

    def default_value(self, pname):
        """Default expressions: literals that hoisting may touch, names from the enclosing scope (also the parameter's own name)."""
        r = self.i(0, 9)
        ints = self.names('int')
        if r < 3:
            return self.int_lit()
        if r < 5:
            return 'None'
        if r < 6:
            return self.str_lit()
        if r < 7:
            return self.ch(['True', 'False'])
        if r < 8 and ints:
            self.features.add('default_names_enclosing_variable')
            return self.ch(ints)
        if r < 9 and pname in ints:
            self.features.add('default_same_name_as_parameter')
            return pname
        return '(%s + 1)' % self.int_lit()

    def make_sig(self, first=None, allow_empty_positional=True):
        """Generate a parameter list. Returns (info, list of signature items)."""
        used = set([first] if first else [])

        def pn():
            # prefer names that are also variables of the enclosing scope (so defaults like level=level arise)
            cands = PARAM_NAMES + [n for n in self.names('int') if isinstance(n, str)][:4]
            for _ in range(10):
                n = self.ch(cands)
                if n not in used:
                    used.add(n)
                    return n
            self.uid += 1
            n = 'param_%d' % self.uid
            used.add(n)
            return n

        info = {'ret': 'int', 'posonly': [], 'pos': [], 'defaulted': [], 'vararg': None, 'kwonly': [], 'kwonly_required': [], 'kwarg': None, 'first': first}
        sig = []
        if first:
            sig.append(first)
        if self.level >= (3, 8) and self.p(0.25):
            info['posonly'] = [pn() for _ in range(self.i(1, 2))]
            sig += info['posonly'] + ['/']
            self.features.add('posonly')
        info['pos'] = [pn() for _ in range(self.i(0, 2))]
        sig += info['pos']
        info['defaulted'] = [pn() for _ in range(self.i(0, 2))]
        sig += ['%s=%s' % (n, self.default_value(n)) for n in info['defaulted']]
        if self.p(0.25):
            info['vararg'] = pn()
            sig.append('*' + info['vararg'])
        if self.p(0.35):
            if not info['vararg']:
                sig.append('*')
            for _ in range(self.i(1, 2)):
                n = pn()
                if self.p(0.25):
                    info['kwonly_required'].append(n)
                    sig.append(n)
                else:
                    info['kwonly'].append(n)
                    sig.append('%s=%s' % (n, self.default_value(n)))
            self.features.add('kwonly')
        if self.p(0.25):
            info['kwarg'] = pn()
            sig.append('**' + info['kwarg'])
        return info, sig

    def sig_prologue(self, info):
        """Inside the function body: make every parameter an int (or list) whatever default/argument it received."""
        for n in info['posonly'] + info['pos'] + info['kwonly_required']:
            self.scopes[-1]['int'].append(n)
        for n in info['defaulted'] + info['kwonly']:
            r = self.i(0, 2)
            if r == 0:
                self.emit('%s = %s if isinstance(%s, int) else 7' % (n, n, n))
            elif r == 1:
                self.emit('if %s is None or %s is True or %s is False or not isinstance(%s, int):' % (n, n, n, n))
                self.emit('    %s = 7' % n)
            else:
                self.emit('if %s is None:' % n)
                self.emit('    %s = None or 7' % n)
                self.emit('elif not isinstance(%s, int):' % n)
                self.emit('    %s = len(str(%s))' % (n, n))
            self.scopes[-1]['int'].append(n)
        if info['vararg']:
            self.emit('%s = list(%s)' % (info['vararg'], info['vararg']))
            self.scopes[-1]['list'].append(info['vararg'])
        if info['kwarg']:
            self.emit('print(repr(sorted(%s.items())))' % info['kwarg'])

    def s_def(self):
        self.features.add('def')
        name = self.fresh(FUNC_NAMES)
        ret = self.ch(['int', 'int', 'str', 'list'])
        info, sig = self.make_sig()
        info['ret'] = ret
        ann = ' -> %s' % self.ch(['int', "'Ret'", 'None']) if self.p(0.2) else ''
        self.emit('def %s(%s)%s:' % (name, ', '.join(sig), ann))
        self.new_scope()
        used = set(info['posonly'] + info['pos'] + info['defaulted'] + info['kwonly'] + info['kwonly_required'] + [info['vararg'], info['kwarg']])
        self.ind += 1
        if self.p(0.3):
            self.features.add('docstring')
            self.emit(repr('Docstring of %s.' % name))
        elif self.p(0.15):
            # removable statements in front of a string statement that is not a docstring
            self.features.add('string_stmt_after_removable')
            self.emit(self.ch(['pass', 'assert True', 'if __debug__: pass', 'pass']))
            self.emit(repr('Not a docstring of %s.' % name))
        self.sig_prologue(info)
        self.ind -= 1
        save = (self.in_func, self.in_loop, getattr(self, 'cur_ret', 'int'))
        self.in_func += 1
        self.in_loop = 0
        self.cur_ret = ret
        # closures
        if self.p(0.3) and self.budget > 2:
            self.features.add('closure')
            self.ind += 1
            cell = self.fresh(INT_NAMES)
            self.emit('%s = %s' % (cell, self.int_expr()))
            self.scopes[-1]['int'].append(cell)
            inner = self.fresh(FUNC_NAMES)
            self.emit('def %s(%s):' % (inner, self.ch(['', 'step_size=1', 'x=0', '*ignored'])))
            self.emit('    nonlocal %s' % cell)
            self.emit('    %s += 1' % cell)
            self.emit('    return %s' % cell)
            self.emit('print(repr(%s(%s)), repr(%s()))' % (inner, '', inner) if False else 'print(repr(%s()), repr(%s))' % (inner, cell)
                      if True else '')
            self.ind -= 1
        if self.p(0.2) and self.scopes[0]['int'] and self.in_func == 1:
            g = self.ch(self.scopes[0]['int'])
            if g not in used:
                self.features.add('global_writer')
                self.ind += 1
                self.emit('global %s' % g)
                self.emit('%s = %s + 1' % (g, g))
                self.ind -= 1
        self.block(1, 3)
        self.ind += 1
        if self.p(0.15):
            self.emit(self.ch(['return', 'return None']))
        else:
            self.emit('return %s' % self.ret_expr())
        self.ind -= 1
        self.in_func, self.in_loop, self.cur_ret = save
        self.scopes.pop()
        self.define('func', name, info)
        if self.p(0.3):
            self.emit('print(repr(%s.__doc__))' % name)
        if self.p(0.7):
            self.emit('print(repr(%s))' % self.call_text(name, info))

    def s_class(self):
        self.features.add('class')
        name = self.fresh(CLASS_NAMES)
        kind = self.i(0, 5)
        if kind == 0:
            self.features.add('dataclass')
            self.emit('import dataclasses')
            self.emit(self.ch(['@dataclasses.dataclass', '@dataclasses.dataclass(frozen=True)', '@dataclasses.dataclass()']))
            self.emit('class %s:' % name)
            self.emit('    field_one: int')
            self.emit('    field_two: str = %s' % self.str_lit())
            self.emit("    untyped_attr = 'not a field'")
            self.emit('print(repr(dataclasses.astuple(%s(%s))), repr([f.name for f in dataclasses.fields(%s)]))' % (name, self.int_lit(), name))
            return
        if kind == 1:
            self.features.add('namedtuple')
            self.emit('import typing')
            self.emit('class %s(typing.NamedTuple):' % name)
            self.emit('    first_field: int')
            self.emit('    second_field: str = %s' % self.str_lit())
            self.emit('print(repr(tuple(%s(first_field=%s))), repr(%s._fields))' % (name, self.int_lit(), name))
            return
        if kind == 2:
            # user exception
            base = self.ch(['Exception', 'ValueError', 'KeyError'])
            self.emit('class %sError(%s):' % (name, base))
            self.emit('    pass')
            if self.ind == 0:
                self.user_excs.append(name + 'Error')
            return
        bases = self.ch(['', '(object)', '(object)', '()'])
        self.emit('class %s%s:' % (name, bases))
        self.ind += 1
        attrs = []
        if self.p(0.3):
            self.emit(repr('Doc of class %s' % name))
        elif self.p(0.15):
            self.features.add('string_stmt_after_removable')
            self.emit('pass')
            self.emit(repr('Not the doc of class %s' % name))
        if self.p(0.2):
            self.emit("__slots__ = ('slot_one', 'slot_two')")
            slots = True
        else:
            slots = False
        ca = self.fresh(['class_attr', 'limit_value', 'A'])
        outer_ints = [n for n in self.names('int') if n.isidentifier()]
        local_ints = [n for sc in self.scopes[1:] for n in sc['int'] if isinstance(n, str) and n.isidentifier()] if self.in_func else []
        shadow = False
        if local_ints and self.p(0.6):
            # inside a function: the attribute is spelled like one of the function's own (renamable) locals
            ca = self.ch(local_ints)
            shadow = True
            self.features.add('class_attr_shadows_function_local')
        elif outer_ints and self.p(0.35):
            # a class attribute spelled like a variable of an enclosing scope: methods that read the bare name see the enclosing
            # variable (class bodies are skipped by closure lookup), `self.<name>` sees the attribute
            ca = self.ch(outer_ints)
            self.features.add('class_attr_shadows_outer')
        self.emit('%s = %s' % (ca, self.int_expr()))
        attrs.append(ca)
        if self.p(0.3):
            self.emit('annotated_attr: int = %s' % self.int_lit())
            attrs.append('annotated_attr')
        self_name = self.ch(['self', 'self', 'this_object', 'A'])
        ia = 'slot_one' if slots else self.fresh(['inst_attr', 'stored_value'])
        self.emit('def __init__(%s, start_value=%s):' % (self_name, self.int_lit()))
        self.emit('    %s.%s = start_value' % (self_name, ia))
        attrs.append(ia)
        m = self.fresh(['method_one', 'compute', 'B'])
        self.emit('def %s(%s, amount, scale_factor=2):' % (m, self_name))
        self.emit('    local_total = %s.%s + amount * scale_factor' % (self_name, ia))
        if outer_ints and self.p(0.8 if shadow else 0.5):
            self.features.add('method_reads_outer')
            self.emit('    return local_total + %s.%s + %s' % (self_name, ca, ca if ca in outer_ints and self.p(0.8 if shadow else 0.6) else self.ch(outer_ints)))
        else:
            self.emit('    return local_total + %s.%s' % (self_name, ca))
        methods = []
        outer_funcs = [f for f in self.names('func') if isinstance(f, tuple)]
        for _ in range(self.i(0, 2)):
            # methods with generated signatures; sometimes no explicit self (variadic / keyword-only / static / class methods)
            kind = self.ch(['plain', 'plain', 'noself', 'static', 'classm'])
            mname = self.fresh(['general_method', 'variadic_method', 'scale', 'D'])
            outer_call = None
            if outer_funcs and self.p(0.5) and not any(mm[0] == outer_funcs[0][0] for mm in methods):
                # a method spelled like a function of an enclosing scope that it calls by the bare name
                self.features.add('method_named_like_outer_func')
                fname, finfo = self.ch(outer_funcs)
                if not any(mm[0] == fname for mm in methods):
                    mname = fname
                    outer_call = 'len(repr(%s))' % self.call_text(fname, finfo)
            first = {'plain': self_name, 'noself': None, 'static': None, 'classm': self.ch(['cls', 'klass', 'A'])}[kind]
            info, sig = self.make_sig(first=first)
            if kind == 'noself':
                # the instance arrives through *args or the method is reached through the class
                if not info['vararg']:
                    info['posonly'] = []
                    info['pos'] = []
                    info['defaulted'] = []
                    sig = [x for x in sig if x == '*' or x.split('=')[0] in info['kwonly'] + info['kwonly_required'] or x.startswith('**')]
                    if '*' not in sig:
                        sig.insert(0, '*')
                        if not (info['kwonly'] or info['kwonly_required']):
                            info['kwonly_required'] = ['scale_amount']
                            sig.insert(1, 'scale_amount')
            if kind == 'noself' and info['vararg']:
                # called through the instance: the first positional parameter (if any) receives it, exactly like `self`;
                # it must not be passed again, and its name (renamable, documented) must not be used as a keyword
                if info['posonly']:
                    info['first'] = info['posonly'].pop(0)
                elif info['pos']:
                    info['first'] = info['pos'].pop(0)
                elif info['defaulted']:
                    info['first'] = info['defaulted'].pop(0)
            if sig and sig[-1] == '*':
                sig.pop()
            if kind == 'static':
                self.emit('@staticmethod')
            elif kind == 'classm':
                self.emit('@classmethod')
            self.emit('def %s(%s):' % (mname, ', '.join(sig)))
            self.new_scope()
            self.ind += 1
            self.sig_prologue(info)
            save = (self.in_func, self.in_loop, getattr(self, 'cur_ret', 'int'))
            self.in_func += 1
            self.in_loop = 0
            self.cur_ret = 'int'
            pool = [n for n in self.scopes[-1]['int']]
            if kind == 'noself' and info['vararg']:
                pool.append('len(%s)' % info['vararg'])
            if outer_call:
                pool = pool[:3] + [outer_call]
            self.emit('return %s' % (' + '.join(pool[:4]) if pool else self.int_lit()))
            self.in_func, self.in_loop, self.cur_ret = save
            self.ind -= 1
            self.scopes.pop()
            methods.append((mname, kind, info))
        if self.p(0.3):
            self.emit('@property')
            self.emit('def doubled(%s):' % self_name)
            self.emit('    return %s.%s * 2' % (self_name, ia))
            attrs.append('doubled')
        self.ind -= 1
        inst = self.fresh(['thing_instance', 'obj', 'G'])
        self.emit('%s = %s(%s)' % (inst, name, self.ch(['', self.int_lit(), 'start_value=%s' % self.int_lit()])))
        self.define('inst', inst, [a for a in attrs if a != '__slots__'])
        self.emit('print(repr(%s.%s(%s, scale_factor=%s)), repr(%s.%s), repr(%s.__doc__))' % (inst, m, self.int_lit(), self.int_lit(), inst, ca, name))
        for mname, kind, info in methods:
            if kind == 'noself' and not info['vararg']:
                target = '%s.%s' % (name, mname)
            else:
                target = '%s.%s' % (inst if self.p(0.7) or kind == 'plain' or kind == 'noself' else name, mname)
            self.features.add('method:' + kind)
            self.emit('print(repr(%s))' % self.call_text(target, info))
        self.define('class', name)

    def module(self):
        if self.p(0.3):
            self.features.add('module_docstring')
            self.emit(repr('Module docstring text.'))
            if self.p(0.5):
                self.emit('print(repr(__doc__))')
        if self.p(0.15):
            self.emit('from __future__ import annotations')
        if self.p(0.2):
            self.emit("__all__ = ['helper_func', 'counter_total']")
        # a few globals first so that functions can refer to them
        for _ in range(self.i(1, 3)):
            self.s_assign()
        while self.budget > 0:
            if self.p(0.25):
                # wrap so that a failure does not hide the rest of the program
                self.emit('try:')
                self.block(1, 2)
                self.emit('except Exception as top_error:')
                self.emit('    print(type(top_error).__name__)')
            else:
                self.stmt()
        if self.chaos:
            self.emit('print(repr(undefined_name_%d))' % self.uid)
        return '\n'.join(self.lines) + '\n'


class RunProgram(object):
    def __init__(self, source, features):
        self.source = source
        self.features = features

    def __repr__(self):
        return 'RunProgram(%r)' % self.source


@st.composite
def runnable_programs(draw, level=(3, 12)):
    g = G(draw, level)
    src = g.module()
    try:
        compile(src, '<grun>', 'exec', dont_inherit=True)
    except SyntaxError:
        from hypothesis import reject
        reject()
    return RunProgram(src, sorted(g.features))
