"""Exhaustive small scope for C02: every (parent kind, slot, child kind) combination of expressions,
depth-3 chains of operator-like nodes, and every statement kind with every expression kind in its slots.

Trees are built as stdlib ast nodes and printed by ast.unparse; combinations the interpreter's parser
rejects are simply not in the domain (counted by the caller through the oracle returning "out of domain").
"""
import ast
import itertools
import warnings

L = ast.Load()
S = ast.Store()


def N(i='a'):
    return ast.Name(id=i, ctx=L)


def C(v):
    return ast.Constant(value=v)


BINOPS = [ast.Add, ast.Sub, ast.Mult, ast.MatMult, ast.Div, ast.Mod, ast.Pow, ast.LShift, ast.RShift, ast.BitOr,
          ast.BitXor, ast.BitAnd, ast.FloorDiv]
UNARYOPS = [ast.Invert, ast.Not, ast.UAdd, ast.USub]
CMPOPS = [ast.Eq, ast.NotEq, ast.Lt, ast.LtE, ast.Gt, ast.GtE, ast.Is, ast.IsNot, ast.In, ast.NotIn]


def args0():
    return ast.arguments(posonlyargs=[], args=[], vararg=None, kwonlyargs=[], kw_defaults=[], kwarg=None, defaults=[])


def comp(t='i', it=None, ifs=None):
    return ast.comprehension(target=ast.Name(id=t, ctx=S), iter=it or N('b'), ifs=ifs or [], is_async=0)


# child kinds: name -> constructor of a fresh small tree of that kind
CHILDREN = [
    ('Name', lambda: N('a')),
    ('Int', lambda: C(1)),
    ('BigInt', lambda: C(10 ** 20)),
    ('Float', lambda: C(1.5)),
    ('FloatE', lambda: C(1e100)),
    ('Imag', lambda: C(2j)),
    ('Str', lambda: C('s')),
    ('Bytes', lambda: C(b's')),
    ('True', lambda: C(True)),
    ('None', lambda: C(None)),
    ('Ellipsis', lambda: C(Ellipsis)),
    ('Neg', lambda: ast.UnaryOp(op=ast.USub(), operand=C(1))),
    ('NegFloat', lambda: ast.UnaryOp(op=ast.USub(), operand=C(0.0))),
    ('Not', lambda: ast.UnaryOp(op=ast.Not(), operand=N('a'))),
    ('Invert', lambda: ast.UnaryOp(op=ast.Invert(), operand=N('a'))),
    ('UAdd', lambda: ast.UnaryOp(op=ast.UAdd(), operand=N('a'))),
] + [
    ('BinOp' + op.__name__, (lambda op: lambda: ast.BinOp(left=N('a'), op=op(), right=N('b')))(op)) for op in BINOPS
] + [
    ('And', lambda: ast.BoolOp(op=ast.And(), values=[N('a'), N('b')])),
    ('Or', lambda: ast.BoolOp(op=ast.Or(), values=[N('a'), N('b')])),
    ('CmpLt', lambda: ast.Compare(left=N('a'), ops=[ast.Lt()], comparators=[N('b')])),
    ('CmpIn', lambda: ast.Compare(left=N('a'), ops=[ast.In()], comparators=[N('b')])),
    ('CmpNotIn', lambda: ast.Compare(left=N('a'), ops=[ast.NotIn()], comparators=[N('b')])),
    ('CmpIsNot', lambda: ast.Compare(left=N('a'), ops=[ast.IsNot()], comparators=[N('b')])),
    ('CmpChain', lambda: ast.Compare(left=N('a'), ops=[ast.Lt(), ast.Eq()], comparators=[N('b'), N('c')])),
    ('IfExp', lambda: ast.IfExp(test=N('a'), body=N('b'), orelse=N('c'))),
    ('Lambda', lambda: ast.Lambda(args=args0(), body=N('a'))),
    ('LambdaArgs', lambda: ast.Lambda(args=ast.arguments(posonlyargs=[], args=[ast.arg(arg='x')], vararg=ast.arg(arg='y'), kwonlyargs=[ast.arg(arg='z')], kw_defaults=[C(1)], kwarg=ast.arg(arg='w'), defaults=[C(2)]), body=N('x'))),
    ('NamedExpr', lambda: ast.NamedExpr(target=ast.Name(id='a', ctx=S), value=N('b'))),
    ('Starred', lambda: ast.Starred(value=N('a'), ctx=L)),
    ('Yield', lambda: ast.Yield(value=N('a'))),
    ('YieldNone', lambda: ast.Yield(value=None)),
    ('YieldFrom', lambda: ast.YieldFrom(value=N('a'))),
    ('Await', lambda: ast.Await(value=N('a'))),
    ('Attribute', lambda: ast.Attribute(value=N('a'), attr='b', ctx=L)),
    ('Subscript', lambda: ast.Subscript(value=N('a'), slice=N('b'), ctx=L)),
    ('SubscriptSlice', lambda: ast.Subscript(value=N('a'), slice=ast.Slice(lower=N('b'), upper=None, step=N('c')), ctx=L)),
    ('Call', lambda: ast.Call(func=N('a'), args=[N('b')], keywords=[ast.keyword(arg='k', value=N('c'))])),
    ('Tuple0', lambda: ast.Tuple(elts=[], ctx=L)),
    ('Tuple1', lambda: ast.Tuple(elts=[N('a')], ctx=L)),
    ('Tuple2', lambda: ast.Tuple(elts=[N('a'), N('b')], ctx=L)),
    ('TupleStar', lambda: ast.Tuple(elts=[ast.Starred(value=N('a'), ctx=L), N('b')], ctx=L)),
    ('List', lambda: ast.List(elts=[N('a'), N('b')], ctx=L)),
    ('Set', lambda: ast.Set(elts=[N('a')])),
    ('Dict', lambda: ast.Dict(keys=[N('a'), None], values=[N('b'), N('c')])),
    ('ListComp', lambda: ast.ListComp(elt=N('i'), generators=[comp()])),
    ('SetComp', lambda: ast.SetComp(elt=N('i'), generators=[comp()])),
    ('DictComp', lambda: ast.DictComp(key=N('i'), value=N('i'), generators=[comp()])),
    ('GeneratorExp', lambda: ast.GeneratorExp(elt=N('i'), generators=[comp(ifs=[N('c')])])),
    ('JoinedStr', lambda: ast.JoinedStr(values=[C('t'), ast.FormattedValue(value=N('a'), conversion=-1, format_spec=None)])),
    ('Slice', lambda: ast.Slice(lower=N('a'), upper=N('b'), step=None)),
]

# operator-like contexts: (name, fn(child) -> parent tree)
OPCTX = []
for _op in BINOPS:
    OPCTX.append(('BinOp%s.left' % _op.__name__, (lambda op: lambda c: ast.BinOp(left=c, op=op(), right=N('r')))(_op)))
    OPCTX.append(('BinOp%s.right' % _op.__name__, (lambda op: lambda c: ast.BinOp(left=N('l'), op=op(), right=c))(_op)))
for _op in UNARYOPS:
    OPCTX.append(('UnaryOp%s' % _op.__name__, (lambda op: lambda c: ast.UnaryOp(op=op(), operand=c))(_op)))
for _op in (ast.And, ast.Or):
    OPCTX.append(('BoolOp%s.0' % _op.__name__, (lambda op: lambda c: ast.BoolOp(op=op(), values=[c, N('r')]))(_op)))
    OPCTX.append(('BoolOp%s.1' % _op.__name__, (lambda op: lambda c: ast.BoolOp(op=op(), values=[N('l'), c]))(_op)))
for _op in (ast.Lt, ast.In, ast.NotIn, ast.Is, ast.NotEq):
    OPCTX.append(('Compare%s.left' % _op.__name__, (lambda op: lambda c: ast.Compare(left=c, ops=[op()], comparators=[N('r')]))(_op)))
    OPCTX.append(('Compare%s.right' % _op.__name__, (lambda op: lambda c: ast.Compare(left=N('l'), ops=[op()], comparators=[c]))(_op)))
OPCTX += [
    ('Compare.mid', lambda c: ast.Compare(left=N('l'), ops=[ast.Lt(), ast.Gt()], comparators=[c, N('r')])),
    ('IfExp.test', lambda c: ast.IfExp(test=c, body=N('x'), orelse=N('y'))),
    ('IfExp.body', lambda c: ast.IfExp(test=N('t'), body=c, orelse=N('y'))),
    ('IfExp.orelse', lambda c: ast.IfExp(test=N('t'), body=N('x'), orelse=c)),
    ('Lambda.body', lambda c: ast.Lambda(args=args0(), body=c)),
    ('Await', lambda c: ast.Await(value=c)),
    ('Starred.call', lambda c: ast.Call(func=N('f'), args=[ast.Starred(value=c, ctx=L)], keywords=[])),
    ('NamedExpr.value', lambda c: ast.NamedExpr(target=ast.Name(id='t', ctx=S), value=c)),
    ('Yield', lambda c: ast.Yield(value=c)),
    ('YieldFrom', lambda c: ast.YieldFrom(value=c)),
    ('Attribute.value', lambda c: ast.Attribute(value=c, attr='x', ctx=L)),
    ('Subscript.value', lambda c: ast.Subscript(value=c, slice=N('i'), ctx=L)),
    ('Subscript.slice', lambda c: ast.Subscript(value=N('v'), slice=c, ctx=L)),
    ('Call.func', lambda c: ast.Call(func=c, args=[], keywords=[])),
    ('Call.arg', lambda c: ast.Call(func=N('f'), args=[c], keywords=[])),
]

# other expression contexts (not chained at depth 3)
OTHERCTX = [
    ('Call.arg2', lambda c: ast.Call(func=N('f'), args=[c, N('z')], keywords=[])),
    ('Call.kw', lambda c: ast.Call(func=N('f'), args=[], keywords=[ast.keyword(arg='k', value=c)])),
    ('Call.kwstar', lambda c: ast.Call(func=N('f'), args=[], keywords=[ast.keyword(arg=None, value=c)])),
    ('Slice.lower', lambda c: ast.Subscript(value=N('v'), slice=ast.Slice(lower=c, upper=None, step=None), ctx=L)),
    ('Slice.upper', lambda c: ast.Subscript(value=N('v'), slice=ast.Slice(lower=None, upper=c, step=None), ctx=L)),
    ('Slice.step', lambda c: ast.Subscript(value=N('v'), slice=ast.Slice(lower=None, upper=None, step=c), ctx=L)),
    ('Subscript.tuple', lambda c: ast.Subscript(value=N('v'), slice=ast.Tuple(elts=[c, N('j')], ctx=L), ctx=L)),
    ('Tuple.elt', lambda c: ast.Tuple(elts=[c, N('z')], ctx=L)),
    ('Tuple.sole', lambda c: ast.Tuple(elts=[c], ctx=L)),
    ('List.elt', lambda c: ast.List(elts=[c], ctx=L)),
    ('Set.elt', lambda c: ast.Set(elts=[c])),
    ('Dict.key', lambda c: ast.Dict(keys=[c], values=[N('v')])),
    ('Dict.value', lambda c: ast.Dict(keys=[N('k')], values=[c])),
    ('Dict.unpack', lambda c: ast.Dict(keys=[None], values=[c])),
    ('ListComp.elt', lambda c: ast.ListComp(elt=c, generators=[comp()])),
    ('GeneratorExp.elt', lambda c: ast.GeneratorExp(elt=c, generators=[comp()])),
    ('DictComp.key', lambda c: ast.DictComp(key=c, value=N('v'), generators=[comp()])),
    ('DictComp.value', lambda c: ast.DictComp(key=N('k'), value=c, generators=[comp()])),
    ('comp.iter', lambda c: ast.ListComp(elt=N('i'), generators=[comp(it=c)])),
    ('comp.iter2', lambda c: ast.ListComp(elt=N('i'), generators=[comp(), comp('j', it=c)])),
    ('comp.if', lambda c: ast.ListComp(elt=N('i'), generators=[comp(ifs=[c])])),
    ('comp.if2', lambda c: ast.SetComp(elt=N('i'), generators=[comp(ifs=[N('q'), c])])),
    ('Lambda.default', lambda c: ast.Lambda(args=ast.arguments(posonlyargs=[], args=[ast.arg(arg='x')], vararg=None, kwonlyargs=[], kw_defaults=[], kwarg=None, defaults=[c]), body=N('x'))),
    ('FormattedValue', lambda c: ast.JoinedStr(values=[ast.FormattedValue(value=c, conversion=-1, format_spec=None)])),
    ('FormattedValue.r', lambda c: ast.JoinedStr(values=[C('x='), ast.FormattedValue(value=c, conversion=114, format_spec=None), C('.')])),
    ('FormattedValue.spec', lambda c: ast.JoinedStr(values=[ast.FormattedValue(value=N('v'), conversion=-1, format_spec=ast.JoinedStr(values=[C('>'), ast.FormattedValue(value=c, conversion=-1, format_spec=None)]))])),
]


def E(x):
    return ast.Expr(value=x)


def fdef(**kw):
    d = dict(name='f', args=args0(), body=[ast.Pass()], decorator_list=[], returns=None, lineno=1)
    d.update(kw)
    return ast.FunctionDef(**d)


STMTCTX = [
    ('Expr', lambda c: E(c)),
    ('Assign.value', lambda c: ast.Assign(targets=[ast.Name(id='t', ctx=S)], value=c, lineno=1)),
    ('Assign.value2', lambda c: ast.Assign(targets=[ast.Name(id='t', ctx=S), ast.Name(id='u', ctx=S)], value=c, lineno=1)),
    ('Assign.subscript', lambda c: ast.Assign(targets=[ast.Subscript(value=N('v'), slice=c, ctx=S)], value=N('z'), lineno=1)),
    ('Assign.attrbase', lambda c: ast.Assign(targets=[ast.Attribute(value=c, attr='x', ctx=S)], value=N('z'), lineno=1)),
    ('AugAssign.value', lambda c: ast.AugAssign(target=ast.Name(id='t', ctx=S), op=ast.Add(), value=c)),
    ('AnnAssign.annotation', lambda c: ast.AnnAssign(target=ast.Name(id='t', ctx=S), annotation=c, value=None, simple=1)),
    ('AnnAssign.value', lambda c: ast.AnnAssign(target=ast.Name(id='t', ctx=S), annotation=N('int'), value=c, simple=1)),
    ('Return', lambda c: fdef(body=[ast.Return(value=c)])),
    ('Delete.subscript', lambda c: ast.Delete(targets=[ast.Subscript(value=N('v'), slice=c, ctx=ast.Del())])),
    ('If.test', lambda c: ast.If(test=c, body=[ast.Pass()], orelse=[])),
    ('Elif.test', lambda c: ast.If(test=N('q'), body=[ast.Pass()], orelse=[ast.If(test=c, body=[ast.Pass()], orelse=[])])),
    ('While.test', lambda c: ast.While(test=c, body=[ast.Pass()], orelse=[])),
    ('For.iter', lambda c: ast.For(target=ast.Name(id='i', ctx=S), iter=c, body=[ast.Pass()], orelse=[], lineno=1)),
    ('For.target.sub', lambda c: ast.For(target=ast.Subscript(value=N('v'), slice=c, ctx=S), iter=N('it'), body=[ast.Pass()], orelse=[], lineno=1)),
    ('With.ctx', lambda c: ast.With(items=[ast.withitem(context_expr=c, optional_vars=None)], body=[ast.Pass()], lineno=1)),
    ('With.ctx.as', lambda c: ast.With(items=[ast.withitem(context_expr=c, optional_vars=ast.Name(id='w', ctx=S))], body=[ast.Pass()], lineno=1)),
    ('With.ctx.two', lambda c: ast.With(items=[ast.withitem(context_expr=c, optional_vars=None), ast.withitem(context_expr=N('z'), optional_vars=None)], body=[ast.Pass()], lineno=1)),
    ('Raise.exc', lambda c: ast.Raise(exc=c, cause=None)),
    ('Raise.cause', lambda c: ast.Raise(exc=N('E'), cause=c)),
    ('Assert.test', lambda c: ast.Assert(test=c, msg=None)),
    ('Assert.msg', lambda c: ast.Assert(test=N('t'), msg=c)),
    ('decorator', lambda c: fdef(decorator_list=[c])),
    ('def.default', lambda c: fdef(args=ast.arguments(posonlyargs=[], args=[ast.arg(arg='x')], vararg=None, kwonlyargs=[], kw_defaults=[], kwarg=None, defaults=[c]))),
    ('def.kwdefault', lambda c: fdef(args=ast.arguments(posonlyargs=[], args=[], vararg=None, kwonlyargs=[ast.arg(arg='x')], kw_defaults=[c], kwarg=None, defaults=[]))),
    ('def.annotation', lambda c: fdef(args=ast.arguments(posonlyargs=[], args=[ast.arg(arg='x', annotation=c)], vararg=None, kwonlyargs=[], kw_defaults=[], kwarg=None, defaults=[]))),
    ('def.returns', lambda c: fdef(returns=c)),
    ('class.base', lambda c: ast.ClassDef(name='K', bases=[c], keywords=[], body=[ast.Pass()], decorator_list=[])),
    ('class.keyword', lambda c: ast.ClassDef(name='K', bases=[], keywords=[ast.keyword(arg='metaclass', value=c)], body=[ast.Pass()], decorator_list=[])),
    ('class.decorator', lambda c: ast.ClassDef(name='K', bases=[], keywords=[], body=[ast.Pass()], decorator_list=[c])),
    ('except.type', lambda c: ast.Try(body=[ast.Pass()], handlers=[ast.ExceptHandler(type=c, name='e', body=[ast.Pass()])], orelse=[], finalbody=[])),
    ('match.subject', lambda c: ast.Match(subject=c, cases=[ast.match_case(pattern=ast.MatchAs(pattern=None, name=None), guard=None, body=[ast.Pass()])])),
    ('match.guard', lambda c: ast.Match(subject=N('s'), cases=[ast.match_case(pattern=ast.MatchAs(pattern=None, name='x'), guard=c, body=[ast.Pass()])])),
    ('stmt.after_keyword', lambda c: ast.If(test=N('q'), body=[E(c)], orelse=[E(c)])),
]


def _src(tree_stmt):
    m = ast.Module(body=[tree_stmt], type_ignores=[])
    ast.fix_missing_locations(m)
    try:
        return ast.unparse(m)
    except Exception:
        return None


def all_cases(full):
    """Yield (label, builder) lazily; builder() -> statement tree."""
    kids = CHILDREN
    # depth 2: every context x every child
    for cname, cf in OPCTX + OTHERCTX:
        for kname, kf in kids:
            yield (cname, kname), (lambda cf=cf, kf=kf: E(cf(kf())))
    for sname, sf in STMTCTX:
        for kname, kf in kids:
            yield (sname, kname), (lambda sf=sf, kf=kf: sf(kf()))
    # statements x operator contexts x children (a child below an operator inside each statement slot)
    for sname, sf in STMTCTX:
        for cname, cf in OPCTX[::3] if not full else OPCTX:
            for kname, kf in kids[::2] if not full else kids:
                yield (sname, cname, kname), (lambda sf=sf, cf=cf, kf=kf: sf(cf(kf())))
    # depth 3 chains of operator-like contexts
    for (c1, f1), (c2, f2) in itertools.product(OPCTX, OPCTX):
        for kname, kf in kids:
            yield (c1, c2, kname), (lambda f1=f1, f2=f2, kf=kf: E(f1(f2(kf()))))


def sources(index, nshards, full):
    """This shard's slice. Quick tier: all depth-2 combinations and one eighth of the depth-3 chains."""
    warnings.simplefilter('ignore')
    k = 0
    for label, build in all_cases(full):
        k += 1
        if k % nshards != index:
            continue
        if not full and len(label) == 3 and label[0] in _OPNAMES and (k // nshards) % 8 != 0:
            continue
        src = _src(build())
        if src is None:
            continue
        yield src


_OPNAMES = set(n for n, _ in OPCTX)


def total(full):
    return sum(1 for _ in all_cases(full))


# Version-sensitive spellings: source forms whose unparenthesized printing is only legal on some interpreters. They are written
# with explicit parentheses (valid everywhere the construct exists) and run inside every installed interpreter.
VERSION_SENSITIVE = [
    'x[(*a,)]', 'x[(*a, b)]', 'del x[(*a,)]', 'x[(*a,)] = 1', 'x[(*a, b), c]', 'x[(*a,):]' if False else 'x[(a, *b)]',
    'x += (*a,)', 'x += (*a, b)', 'x -= (a, *b)', 'x: int = (*a,)', 'x: int = (*a, b)',
    'for i in (*a, b): pass', 'for i in (*a,): pass', 'async def f():\n    async for i in (*a, b): pass', 'x = [i for i in (*a, b)]',
    'def f():\n    return (*a, b)', 'def f():\n    return (*a,)', 'def f():\n    yield (*a, b)', 'def f():\n    x = yield (*a, b)', 'def f():\n    x = y = yield (*a,)',
    'def f():\n    x += yield (*a,)', 'x = (*a, b)', 'x = (*a,)', 'x = y = (*a, b)', 'with (a, b): pass', 'with ((a, b)) as c: pass', 'with (*a,) as b: pass',
    'assert (*a,), (*b,)', 'lambda: (*a,)', 'x = (yield)', 'def f():\n    x = (yield a, b)', 'def f():\n    await_ = [(yield)]', 'print((yield))' if False else 'f((*a,))',
    'x = (y := 1)', 'f(y := 1)', 'f(x=(y := 1))', 'x[(y := 1)]', 'x[(y := 1):2]', '[(y := 1) for i in a]', '{(y := 1): 2}', 'while (y := f()): pass', 'if (y := 1) and z: pass',
    'x = (y := 1), 2', 'assert (y := 1)', 'del x[(y := 1)]', 'lambda: (y := 1)', 'f"{(y := 1)}"', 'x = [y := 1, 2]', 'x = {(y := 1)}', 'with (y := f()): pass',
    '@(y := f)\ndef g(): pass', '@a.b[c]\ndef g(): pass', '@(lambda f: f)\ndef g(): pass', '@a if b else c\ndef g(): pass', '@(yield)\ndef g(): pass' if False else '@a @ b\ndef g(): pass',
    'def f(a, /, b, *, c): pass', 'lambda a, /: a', 'def f(a=1, /, b=2): pass', 'def f(a, /): pass',
    'x = a if b else c if d else e', 'x = (a if b else c) if d else e', 'x = (lambda: a) if b else c', 'x = a if (lambda: b) else c',
    'print(*a, sep="")', 'f(**a, **b)', 'f(*a, *b, c)', 'x = {**a, "k": 1}', 'x = [*a, *b]', 'x = *a, *b', 'x = {*a, *b}',
    "f'{a!r:>{w}}'", "f'{a}{{}}'", "f'{{{a}}}'", "f'{a:{b}{c}}'", "f'{a=}'", "f'{a = }'", "f'{a=!r:>5}'", "f'{ {1: 2}[1]}'", "f'{ {1, 2} }'", "f'{(lambda: 1)()}'", "f'{a if b else c}'",
    "f'{x!s}' f'{y}' 'z'", "f'''{a}\n{b}'''", "f'{a[\"k\"]}'", 'f"{a[\'k\']}"', "f'{\"s\" \"t\"}'",
    'try:\n    pass\nexcept* E:\n    pass', 'try:\n    pass\nexcept* (A, B) as e:\n    pass',
    'match x:\n    case [a, *b]:\n        pass', 'match x:\n    case {"k": v, **r}:\n        pass', 'match x:\n    case A(b=1) | None:\n        pass', 'match (x, y):\n    case (1, 2):\n        pass',
    'match x:\n    case -1 | 1.5 | 2j | -1+2j:\n        pass', 'match x,:\n    case _:\n        pass', 'match x:\n    case a.b:\n        pass', 'match x:\n    case (a, b) as c if c:\n        pass',
    'match = 1\ncase = 2\ntype = 3\nprint(match, case, type)', 'match(x)', 'match[x]', 'type(x)', 'type X = int', 'type X[T] = list[T]', 'def f[T: int, *Ts, **P](a: T) -> T: pass', 'class A[T](B): pass',
    'def f[T = int](): pass', 'class A[*Ts = (int,)]: pass',
    'async def f():\n    return [i async for i in a]', 'async def f():\n    return [await i for i in a]', 'async def f():\n    async with a as b, c as d: pass', 'async def f():\n    await (yield)',
    'x = 1 .real', 'x = 1..real', 'x = 1e5.real', 'x = 0x10.real' if False else 'x = 1j.real', 'x = -1 ** 2', 'x = (-1) ** 2', 'x = 2 ** -1', 'x = -(-1)', 'x = - -1', 'x = +-~1', 'x = not not a',
    'x = a ** b ** c', 'x = (a ** b) ** c', 'x = a - (b - c)', 'x = a / (b * c)', 'x = (a, b)[0]', 'x = (a < b) < c', 'x = a < (b < c)', 'x = (not a) == b', 'x = not (a == b)',
    'x = (await a) ** 2' if False else 'x = a @ b @ c', 'x = a or (b or c)', 'x = (a or b) and c', 'x = a if b else (c, d)', 'x = [a for a in b if (c if d else e)]', 'x = [a for a in (b if c else d)]',
    'x = (yield a) + 1' if False else 'global_ = 1', 'x = 1 if 2 else 3', 'x = 1if 2else 3', 'x = 0x1f', 'x = 0o17', 'x = 0b11', 'x = 1_000', 'x = 1e-5', 'x = .5', 'x = 5.', 'x = 1e100', 'x = 1E5j',
    "x = 'a' 'b'", "x = b'a' b'b'", "x = u'a'", "x = r'\\d'", "x = rb'\\d'", "x = '''a\nb'''", 'x = "\\N{BULLET}"', "x = '\\x00\\xff\\u1234\\U0001f600'", "x = b'\\x00\\xff'",
    'from . import a', 'from .. import a as b', 'from .a import (b, c)', 'from a.b import c as d, e', 'import a.b.c', 'import a.b as c, d', 'from a import *',
    'global a, b', 'def f():\n    def g():\n        nonlocal_ = 1\n    return g', 'del a, b[0], c.d', 'del (a, b)', 'del [a, b]', 'a = b = c = 1', 'a, b = b, a', '(a, b), c = d', '[a, b] = c', 'a, = b', '*a, = b',
    'a: int', '(a): int', 'a.b: int = 1', 'a[0]: int', 'class A(object, metaclass=M, k=1): pass', 'class A(*b, **k): pass', 'class A: x: int = 1',
    'while 1:\n    break\nelse:\n    pass', 'for a in b:\n    continue\nelse:\n    pass', 'try:\n    pass\nexcept (A, B) as e:\n    raise\nelse:\n    pass\nfinally:\n    pass', 'raise A from B', 'raise',
    'if a:\n    pass\nelif b:\n    pass\nelse:\n    pass', 'if a:\n    if b:\n        pass\n    else:\n        pass', 'with a as (b, c): pass', 'with a as [b, c], d as e.f: pass',
]


def version_sensitive_sources():
    out = []
    seen = set()
    for s in VERSION_SENSITIVE:
        if s not in seen:
            seen.add(s)
            out.append(s + '\n')
    return out
