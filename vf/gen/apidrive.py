"""API differential on real single-file stdlib modules (C01): original and minified source are each exec'd as a module and
the public API is driven with generated arguments; results (repr or exception class) must agree.

Each driver is (module file relative to the stdlib, strategy producing a picklable "call plan", function(ns, plan) -> observable).
Only deterministic, side-effect-free entry points are used.
"""
import os

from hypothesis import strategies as st

STDLIB = '/root/.pyenv/versions/3.12.1/lib/python3.12'

small_text = st.text(alphabet=st.sampled_from(list('ab c\n\t-_.,AZ09é')), max_size=40)
words = st.lists(st.sampled_from(['alpha', 'beta', 'gamma', 'delta', 'a', 'I', 'hyphen-ated', 'x' * 15, 'end.', 'Mr.', 'tab\tbed']), max_size=12).map(' '.join)
ints = st.integers(-50, 50)
int_lists = st.lists(ints, max_size=12)
small_bytes = st.binary(max_size=24)


def d_textwrap(ns, plan):
    text, width, prefix = plan
    out = []
    for f in (lambda: ns['wrap'](text, width), lambda: ns['fill'](text, width, initial_indent=prefix, subsequent_indent='  '),
              lambda: ns['shorten'](text, width), lambda: ns['dedent'](prefix + text + '\n' + prefix + 'x'), lambda: ns['indent'](text, prefix),
              lambda: ns['TextWrapper'](width=width, break_long_words=False, max_lines=2, placeholder='..').wrap(text)):
        out.append(call(f))
    return out


def d_heapq(ns, plan):
    data, n, extra = plan
    out = []
    h = list(data)
    out.append(call(lambda: (ns['heapify'](h), list(h))[1]))
    out.append(call(lambda: ns['nlargest'](n, data)))
    out.append(call(lambda: ns['nsmallest'](n, data, key=lambda v: -v)))
    out.append(call(lambda: list(ns['merge'](sorted(data), sorted(extra)))))
    out.append(call(lambda: list(ns['merge'](sorted(data, reverse=True), sorted(extra, reverse=True), reverse=True, key=abs))))
    out.append(call(lambda: [ns['heappushpop'](h, v) for v in extra]))
    return out


def d_colorsys(ns, plan):
    r, g, b = plan
    out = []
    for name in ('rgb_to_yiq', 'yiq_to_rgb', 'rgb_to_hls', 'hls_to_rgb', 'rgb_to_hsv', 'hsv_to_rgb'):
        out.append(call(lambda name=name: tuple(round(v, 9) for v in ns[name](r, g, b))))
    return out


def d_base64(ns, plan):
    data, alt = plan
    out = []
    for f in (lambda: ns['b64encode'](data), lambda: ns['b64decode'](ns['b64encode'](data)), lambda: ns['urlsafe_b64encode'](data), lambda: ns['b32encode'](data),
              lambda: ns['b32decode'](ns['b32encode'](data)), lambda: ns['b16encode'](data), lambda: ns['b85encode'](data, pad=alt), lambda: ns['b85decode'](ns['b85encode'](data)),
              lambda: ns['a85encode'](data, foldspaces=alt, wrapcol=10 if alt else 0), lambda: ns['a85decode'](ns['a85encode'](data)), lambda: ns['b64decode'](data, validate=alt),
              lambda: ns['b32hexencode'](data), lambda: ns['encodebytes'](data), lambda: ns['z85encode'](data) if 'z85encode' in ns else None):
        out.append(call(f))
    return out


def d_shlex(ns, plan):
    s, posix = plan
    out = []
    out.append(call(lambda: ns['split'](s, posix=posix)))
    out.append(call(lambda: ns['split'](s, comments=True)))
    out.append(call(lambda: ns['quote'](s)))
    out.append(call(lambda: ns['join'](s.split())))
    out.append(call(lambda: list(ns['shlex'](s, punctuation_chars=True))))
    return out


def d_fnmatch(ns, plan):
    pat, names = plan
    out = []
    out.append(call(lambda: ns['translate'](pat)))
    out.append(call(lambda: [ns['fnmatchcase'](n, pat) for n in names]))
    out.append(call(lambda: ns['filter'](names, pat)))
    return out


def d_difflib(ns, plan):
    a, b = plan
    out = []
    out.append(call(lambda: round(ns['SequenceMatcher'](None, a, b).ratio(), 9)))
    out.append(call(lambda: ns['SequenceMatcher'](None, a, b).get_opcodes()))
    out.append(call(lambda: list(ns['unified_diff'](a.split(), b.split(), lineterm=''))))
    out.append(call(lambda: list(ns['ndiff'](a.split(), b.split()))))
    out.append(call(lambda: ns['get_close_matches'](a[:5], b.split() + a.split())))
    out.append(call(lambda: list(ns['context_diff'](a.split(), b.split(), lineterm=''))))
    return out


def d_string(ns, plan):
    tmpl, mapping, text = plan
    out = []
    out.append(call(lambda: ns['Template'](tmpl).safe_substitute(mapping)))
    out.append(call(lambda: ns['Template'](tmpl).substitute(mapping)))
    out.append(call(lambda: ns['capwords'](text)))
    out.append(call(lambda: ns['Formatter']().format(tmpl.replace('$', ''), *mapping.values(), **mapping)))
    out.append(call(lambda: sorted(ns['Template'](tmpl).get_identifiers())))
    return out


def d_graphlib(ns, plan):
    edges = plan
    graph = {}
    for a, b in edges:
        graph.setdefault(a, set()).add(b)

    def run():
        ts = ns['TopologicalSorter'](graph)
        ts.prepare()
        order = []
        while ts.is_active():
            ready = sorted(ts.get_ready())
            order.append(ready)
            ts.done(*ready)
        return order
    return [call(run), call(lambda: sorted(map(str, graph)) and len(tuple(ns['TopologicalSorter'](graph).static_order())))]


def d_posixpath(ns, plan):
    parts = plan
    p = '/'.join(parts)
    out = []
    for f in (lambda: ns['normpath'](p), lambda: ns['join'](*parts) if parts else '', lambda: ns['split'](p), lambda: ns['splitext'](p), lambda: ns['basename'](p), lambda: ns['dirname'](p),
              lambda: ns['isabs'](p), lambda: ns['commonpath']([p, '/'.join(parts[:2])]) if parts else None, lambda: ns['relpath'](p or '.', '/' + '/'.join(parts[:1])),
              lambda: ns['commonprefix']([p, p[:3]])):
        out.append(call(f))
    return out


def d_fractions(ns, plan):
    a, b, c, d = plan
    F = ns['Fraction']
    out = []
    for f in (lambda: F(a, b) + F(c, d), lambda: F(a, b) * F(c, d), lambda: F(a, b) / F(c, d), lambda: F(a, b) ** 2, lambda: F(a, b) // F(c, d), lambda: F(a, b) % F(c, d),
              lambda: F('%d/%d' % (a, b)), lambda: F(a, b).limit_denominator(7), lambda: round(F(a, b), 2), lambda: F(a / 8.0), lambda: (F(a, b) < F(c, d), F(a, b) == F(c, d)),
              lambda: float(F(a, b)), lambda: F(a, b).as_integer_ratio(), lambda: divmod(F(a, b), F(c, d)), lambda: format(F(a, b), '.3f')):
        out.append(call(lambda f=f: repr(f())))
    return out


def d_pprint(ns, plan):
    obj, width = plan
    out = []
    out.append(call(lambda: ns['pformat'](obj, width=width)))
    out.append(call(lambda: ns['pformat'](obj, width=width, compact=True, depth=2)))
    out.append(call(lambda: ns['saferepr'](obj)))
    out.append(call(lambda: ns['isreadable'](obj)))
    out.append(call(lambda: ns['pformat'](obj, indent=3, sort_dicts=False, underscore_numbers=True)))
    return out


def d_random(ns, plan):
    seed, n = plan
    R = ns['Random']

    def run():
        r = R(seed)
        seq = list(range(n + 1))
        r.shuffle(seq)
        return (round(r.random(), 12), r.randint(1, 100), r.choice(seq), seq, r.sample(range(50), min(n, 10)), round(r.gauss(0, 1), 9), round(r.uniform(1, 2), 9),
                r.randrange(0, 100, 3), r.getrandbits(20), round(r.triangular(0, 10, 3), 9), r.choices('abc', k=4), round(r.expovariate(2.0), 9), r.randbytes(4))
    return [call(run)]


def d_ipaddress(ns, plan):
    a, b, prefix = plan
    out = []
    for f in (lambda: str(ns['ip_address'](a)), lambda: str(ns['ip_network']((a, prefix), strict=False)), lambda: ns['ip_address'](a) < ns['ip_address'](b),
              lambda: [str(h) for h in list(ns['ip_network']((a & 0xFFFFFF00, 30), strict=False).hosts())], lambda: ns['ip_address'](a).is_private,
              lambda: str(ns['ip_interface']('%d.%d.%d.%d/%d' % (a >> 24 & 255, a >> 16 & 255, a >> 8 & 255, a & 255, prefix))), lambda: ns['ip_address'](a).reverse_pointer,
              lambda: [str(n) for n in ns['summarize_address_range'](ns['ip_address'](min(a, b)), ns['ip_address'](min(a, b) + 20))],
              lambda: str(ns['ip_address']('::%x' % a)), lambda: ns['ip_address']('::ffff:%d.%d.%d.%d' % (a >> 24 & 255, a >> 16 & 255, a >> 8 & 255, a & 255)).ipv4_mapped.packed):
        out.append(call(lambda f=f: repr(f())))
    return out


def d_urlparse(ns, plan):
    url, qs = plan
    out = []
    for f in (lambda: tuple(ns['urlsplit'](url)), lambda: tuple(ns['urlparse'](url)), lambda: ns['quote'](url), lambda: ns['unquote'](ns['quote'](url, safe='')), lambda: ns['parse_qs'](qs),
              lambda: ns['parse_qsl'](qs, keep_blank_values=True), lambda: ns['urlencode'](ns['parse_qsl'](qs)), lambda: ns['urljoin'](url, '../x?y=1'), lambda: ns['urldefrag'](url)[0],
              lambda: ns['quote_plus'](qs), lambda: ns['unquote_plus'](qs), lambda: ns['urlunsplit'](ns['urlsplit'](url))):
        out.append(call(lambda f=f: repr(f())))
    return out


def d_calendar(ns, plan):
    year, month, first = plan
    out = []
    out.append(call(lambda: ns['TextCalendar'](first).formatmonth(year, month)))
    out.append(call(lambda: ns['monthrange'](year, month)))
    out.append(call(lambda: ns['isleap'](year)))
    out.append(call(lambda: ns['Calendar'](first).monthdayscalendar(year, month)))
    out.append(call(lambda: ns['leapdays'](year, year + 40)))
    out.append(call(lambda: ns['weekday'](year, month, 1)))
    return out


def call(f):
    try:
        v = f()
        return 'ok:' + (v if isinstance(v, str) else repr(v))
    except BaseException as e:
        for c in type(e).__mro__:
            if c.__module__ == 'builtins':
                return 'raises:' + c.__name__
        return 'raises:?'


url_chars = st.text(alphabet=st.sampled_from(list('abc/:?#&=.%20@[]é+ ;')), max_size=30)
nested = st.recursive(st.one_of(ints, small_text, st.none(), st.booleans(), st.floats(allow_nan=False, width=16)),
                      lambda c: st.one_of(st.lists(c, max_size=4), st.dictionaries(st.one_of(ints, small_text), c, max_size=4), st.tuples(c, c)), max_leaves=12)

DRIVERS = {
    'textwrap.py': (st.tuples(words, st.integers(5, 40), st.sampled_from(['', '  ', '> ', '\t'])), d_textwrap),
    'heapq.py': (st.tuples(int_lists, st.integers(0, 6), int_lists), d_heapq),
    'colorsys.py': (st.tuples(*[st.floats(0, 1, allow_nan=False, width=32)] * 3), d_colorsys),
    'base64.py': (st.tuples(small_bytes, st.booleans()), d_base64),
    'shlex.py': (st.tuples(st.text(alphabet=st.sampled_from(list('ab "\'\\#;|&$ x=1\n')), max_size=25), st.booleans()), d_shlex),
    'fnmatch.py': (st.tuples(st.text(alphabet=st.sampled_from(list('ab*?[]!.-c')), max_size=8), st.lists(st.sampled_from(['a', 'ab', 'a.b', 'abc', '-', 'b!', '[a]', '']), max_size=6)), d_fnmatch),
    'difflib.py': (st.tuples(words, words), d_difflib),
    'string.py': (st.tuples(st.sampled_from(['$a and ${b}', '$$ $a', '{0} {a}', '$missing', '${a}x$b', '{a!r:>5}', '$', 'plain']), st.fixed_dictionaries({'a': ints, 'b': small_text}), words), d_string),
    'graphlib.py': (st.lists(st.tuples(st.integers(0, 6), st.integers(0, 6)), max_size=10), d_graphlib),
    'posixpath.py': (st.lists(st.sampled_from(['a', '..', '.', '', 'b.txt', 'c.d.e', '~', 'x y', '/abs']), max_size=6), d_posixpath),
    'fractions.py': (st.tuples(st.integers(-30, 30), st.integers(1, 30), st.integers(-30, 30), st.integers(1, 30)), d_fractions),
    'pprint.py': (st.tuples(nested, st.integers(10, 80)), d_pprint),
    'random.py': (st.tuples(st.integers(0, 10 ** 6), st.integers(1, 20)), d_random),
    'ipaddress.py': (st.tuples(st.integers(0, 2 ** 32 - 1), st.integers(0, 2 ** 32 - 1), st.integers(8, 32)), d_ipaddress),
    'urllib/parse.py': (st.tuples(url_chars.map(lambda s: 'http://h' + s), st.text(alphabet=st.sampled_from(list('ab=&;%20+c1')), max_size=24)), d_urlparse),
    'calendar.py': (st.tuples(st.integers(1900, 2100), st.integers(1, 12), st.integers(0, 6)), d_calendar),
}


def load(name):
    with open(os.path.join(STDLIB, name), 'rb') as f:
        return f.read().decode('utf-8')


def exec_module(src, modname):
    ns = {'__name__': modname, '__file__': '<' + modname + '>'}
    exec(compile(src, '<' + modname + '>', 'exec', dont_inherit=True), ns)
    return ns
