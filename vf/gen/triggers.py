"""G-trigger: option-trigger-dense programs for C05. Every documented rewrite site and its near misses, planted at
generated positions in all block kinds. Programs need not run, they must compile."""
from hypothesis import strategies as st

EXC = ['ValueError', 'KeyError', 'Exception', 'StopIteration', 'OSError', 'TypeError', 'NotImplementedError', 'BaseException', 'Warning']
NONEXC = ['int', 'len', 'object', 'print']


class T(object):
    def __init__(self, draw):
        self.d = draw
        self.lines = []
        self.ind = 0
        self.sites = set()
        self.shadow = set()
        self.uid = 0
        self.in_func = 0
        self.in_class = 0
        self.in_loop = 0

    def i(self, a, b):
        return self.d(st.integers(a, b))

    def p(self, x):
        return self.d(st.integers(0, 99)) < int(100 * x)

    def ch(self, seq):
        return seq[self.d(st.integers(0, len(seq) - 1))]

    def emit(self, s):
        for ln in s.split('\n'):
            self.lines.append('    ' * self.ind + ln)

    def expr(self):
        return self.ch(['x', 'value', '1', 'f(x)', 'x + 1', "'text'", 'None', '[x]', 'x.attr', '1 + 2', '10 * 10', '2 ** 8', '1 - 5', '3.0 * 2', 'True + 1', '6 / 3', '1 << 4',
                        "'a' + 'b'", '(1 + 2) * x', '0 or x', '-1 + 1', '0x10 + 1'])

    # -- trigger statements ------------------------------------------------------------------------------
    def simple(self):
        r = self.i(0, 23)
        if r == 0:
            self.sites.add('pass')
            return self.emit('pass')
        if r == 1:
            self.sites.add('literal-stmt')
            return self.emit(self.ch(["'a literal statement'", '42', "b'bytes'", 'None', 'True', '3.5', '...', '0', "f'{x}'", '1j', "'''triple\nquoted'''", '-1', '(1)', "'a' 'b'"]))
        if r == 2:
            self.sites.add('import')
            n = self.i(1, 3)
            mods = ['os', 'sys', 'collections', 'os.path', 'json as js', 'itertools', 'a.b.c as d']
            return self.emit('\n'.join('import %s' % self.ch(mods) for _ in range(n)))
        if r == 3:
            self.sites.add('import-from')
            n = self.i(1, 3)
            forms = ['from collections import OrderedDict', 'from collections import defaultdict as dd', 'from os import path', 'from os import *' if self.ind == 0 else 'from os import sep',
                     'from . import sibling', 'from .. import parent', 'from .pkg import thing', 'from collections import abc, deque', 'from os import getcwd', 'from . import other']
            if self.p(0.3):
                # the same module name at different relative levels, and the bare-dots forms: only identical (module, level) pairs may merge
                mod = self.ch(['pkg', 'util', 'os', ''])
                out = []
                for k in range(self.i(2, 4)):
                    lvl = self.i(0 if mod else 1, 2)
                    out.append('from %s%s import name_%d' % ('.' * lvl, mod, k))
                return self.emit('\n'.join(out))
            return self.emit('\n'.join(self.ch(forms) for _ in range(n)))
        if r == 4:
            self.sites.add('import-mixed')
            return self.emit('import os\nx = 1\nimport sys\nfrom os import path\nimport json\nfrom os import sep')
        if r == 5 and self.in_func:
            self.sites.add('return-none')
            return self.emit(self.ch(['return None', 'return', 'return (None)', 'return x', 'return None or x']))
        if r == 6:
            self.sites.add('raise')
            name = self.ch(EXC + NONEXC + ['UserError', 'mod.ValueError'] + sorted(self.shadow))
            form = self.ch(['raise %s()', 'raise %s', 'raise %s() from %s()', 'raise %s(x)', 'raise %s(msg=x)', 'raise %s(*args)', 'raise %s()()', 'raise (%s())', 'raise %s() from None',
                            'raise %s from %s()', 'raise %s() from %s'])
            k = form.count('%s')
            return self.emit(form % tuple([name] + [self.ch(EXC + sorted(self.shadow))] * (k - 1)))
        if r == 7:
            self.sites.add('annassign')
            return self.emit(self.ch(['v: int = %s', 'v: int', 'obj.attr: int = %s', 'obj.attr: str', 'seq[0]: int = %s', '(v): int = %s', "w: 'Forward' = %s", 'w: List[int]']).replace('%s', self.expr()))
        if r == 8:
            self.sites.add('assert')
            return self.emit(self.ch(['assert x', 'assert x, "message"', 'assert (x, "always true")', 'assert f(x) == 1, f"m {x}"']))
        if r == 9:
            self.sites.add('debug')
            test = self.ch(['__debug__', '__debug__ is True', '__debug__ is not False', '__debug__ == True',
                            # look-alikes that must stay
                            'x is True', '__debug__ and y', 'not __debug__', '__debug__ is False', '__debug__ == 1', 'True is __debug__', '__debug__ != True', 'x == True',
                            'x is not False', '__debug__ is not True', '(__debug__)', '__debug__ is True is True'])
            self.emit('if %s:' % test)
            self.ind += 1
            self.emit(self.ch(['print(x)', 'pass', 'x = 1', "'literal'"]))
            self.ind -= 1
            k = self.i(0, 5)
            if k == 0:
                self.emit('else:\n    y = 2')
            elif k == 1:
                self.emit('elif __debug__:\n    y = 3')
            elif k == 2:
                self.emit('elif z:\n    y = 4\nelse:\n    pass')
            return
        if r == 10:
            self.sites.add('fold')
            return self.emit('q = %s' % self.ch(['1 + 2', '10 * 100', '2 ** 10', '7 / 2', '7 // 2', '1 << 8', '5 - 10', '0.5 + 0.25', 'True & False', '1 + 2 + x', 'x + 1 + 2', "'a' * 3", '1 if 2 else 3',
                                                 '-(1 + 2)', '(1 + 2).real', '1e300 * 1e300', '0 * 1e999', '1 % 0', '2 * 3j', '0xFF + 1', '1 + True', '10 ** -1', '-5 // 2', '5 @ 3']))
        if r == 11:
            self.sites.add('shadow')
            n = self.ch(EXC[:5])
            self.shadow.add(n)
            return self.emit(self.ch(['%s = MyError', 'import %s', 'from errors import %s', 'def %s(): pass', 'class %s(Exception): pass', 'for %s in xs: pass', 'with cm as %s: pass',
                                      '%s: type = KeyError']) % n)
        if r == 12:
            self.sites.add('doc-use')
            return self.emit(self.ch(['print(__doc__)', 'h = f.__doc__', 'd = __doc__ or ""', 'del __doc__']))
        if r == 13:
            return self.emit('x = %s' % self.expr())
        if r == 14 and self.in_loop:
            return self.emit(self.ch(['break', 'continue']))
        if r == 15:
            self.sites.add('lambda-posonly')
            return self.emit(self.ch(['g = lambda a, /, b: a', 'g = lambda a, /, **kw: kw', 'g = lambda a, b=1, /: a']))
        if r == 16:
            return self.emit('f(%s)' % self.expr())
        return self.emit('x = %s' % self.expr())

    def block(self, lo=1, hi=3):
        self.ind += 1
        for _ in range(self.i(lo, hi)):
            self.stmt()
        self.ind -= 1

    def stmt(self):
        deep = self.ind >= 3
        r = self.i(0, 19)
        if deep or r < 9:
            return self.simple()
        self.uid += 1
        if r < 11:
            self.sites.add('def')
            args = self.ch(['', 'a', 'a, b=1', 'a: int, b: str = "s"', 'a, /, b', 'a, /, b, *, c', 'a, /', 'a: int, /, b: int = 1, *c: str, d: bool, **e: dict', '*args, **kwargs', 'self',
                            'a, /, **kw', 'a=1, /, *, k'])
            ret = self.ch(['', '', ' -> int', ' -> "Forward"', ' -> None'])
            deco = self.ch(['', '', '@decorator\n', '@staticmethod\n' if self.in_class else '', '@property\n' if self.in_class else ''])
            self.emit('%s%sdef %s%d(%s)%s:' % (deco, 'async ' if self.p(0.1) else '', self.ch(['func', 'method', 'g']), self.uid, args, ret))
            save = (self.in_func, self.in_class, self.in_loop)
            self.in_func, self.in_class, self.in_loop = 1, 0, 0
            if self.p(0.4):
                self.ind += 1
                self.sites.add('docstring')
                self.emit(self.ch(["'''docstring'''", '"doc"', "'a' 'b'"]))
                self.ind -= 1
            self.block(1, 3)
            if self.p(0.5):
                self.ind += 1
                self.sites.add('return-none')
                self.emit(self.ch(['return None', 'return', 'return x', 'return None']))
                self.ind -= 1
            self.in_func, self.in_class, self.in_loop = save
            return
        if r < 13:
            self.sites.add('class')
            bases = self.ch(['', '(object)', '(Base, object)', '(object, Base)', '(Base)', '(object, metaclass=Meta)', '(metaclass=object)', '(builtins.object)', '(NamedTuple)',
                             '(typing.NamedTuple)', '(TypedDict)', '(typing.TypedDict, total=False)', '(object, object)', '(Generic[T], object)'])
            deco = self.ch(['', '', '', '@dataclass\n', '@dataclasses.dataclass\n', '@dataclass(frozen=True)\n', '@dataclasses.dataclass(order=True)\n', '@attr.dataclass\n', '@decorator\n',
                            '@functools.total_ordering\n@dataclass\n', '@dataclass\n@register\n', '@register(1)\n@dataclasses.dataclass(frozen=True)\n'])
            self.emit('%sclass Klass%d%s:' % (deco, self.uid, bases))
            save = (self.in_func, self.in_class, self.in_loop)
            self.in_func, self.in_class, self.in_loop = 0, 1, 0
            self.ind += 1
            if self.p(0.3):
                self.sites.add('docstring')
                self.emit("'''class doc'''")
            for _ in range(self.i(0, 3)):
                self.sites.add('class-annotation')
                self.emit(self.ch(['field: int', 'field2: str = "v"', 'other: "T" = None', 'plain = 1', 'z: List[int]']))
            if self.p(0.3):
                self.emit('if cond:\n    nested_field: int = 1\n    nested_only: str')
            self.ind -= 1
            self.block(0, 2)
            self.ind += 1
            if self.lines[-1].strip().endswith(':'):
                self.emit('pass')
            self.ind -= 1
            # make sure the class body is not empty
            self.ind += 1
            self.emit(self.ch(['pass', 'attr = 1', "'trailing literal'"]))
            self.ind -= 1
            self.in_func, self.in_class, self.in_loop = save
            return
        if r < 14:
            self.emit('if %s:' % self.ch(['x', 'cond', 'x is True', 'x == 1']))
            self.block()
            if self.p(0.4):
                self.emit('elif y:')
                self.block(1, 2)
            if self.p(0.4):
                self.emit('else:')
                self.block(1, 2)
            return
        if r < 15:
            self.emit(self.ch(['for i in xs:', 'while cond:', 'async for i in xs:' if self.in_func == 2 else 'for i, j in ys:']))
            self.in_loop += 1
            self.block()
            self.in_loop -= 1
            if self.p(0.3):
                self.emit('else:')
                self.block(1, 1)
            return
        if r < 17:
            star = self.p(0.2)
            self.emit('try:')
            self.block(1, 2)
            for _ in range(self.i(1, 2)):
                self.emit(self.ch(['except* ValueError:', 'except* (KeyError, OSError) as eg:'] if star else ['except ValueError:', 'except (KeyError, OSError) as e:', 'except Exception as exc:']))
                save = self.in_loop
                if star:
                    self.in_loop = 0
                self.block(1, 2)
                self.in_loop = save
            if not star and self.p(0.3):
                self.emit('except:')
                self.block(1, 1)
            if self.p(0.3):
                self.emit('else:')
                self.block(1, 1)
            if self.p(0.3):
                self.emit('finally:')
                self.block(1, 1)
            return
        if r < 18:
            self.emit(self.ch(['with cm:', 'with cm as c, other() as o:', 'with (yield_ctx()) as y:']))
            self.block()
            return
        self.emit('match subject:')
        self.ind += 1
        for _ in range(self.i(1, 2)):
            self.emit(self.ch(['case 1:', 'case [a, b]:', 'case {"k": v}:', 'case Point(x=0):', 'case str() | None:', 'case _ if guard:']))
            self.block(1, 2)
        self.ind -= 1


@st.composite
def trigger_programs(draw):
    t = T(draw)
    if t.p(0.4):
        t.sites.add('module-docstring')
        t.emit(t.ch(['"""module docstring"""', "'doc'", 'b"not a docstring"', '42']))
    if t.p(0.15):
        t.emit('from __future__ import annotations')
    for _ in range(t.i(2, 7)):
        t.stmt()
    src = '\n'.join(t.lines) + '\n'
    try:
        import warnings
        with warnings.catch_warnings():
            warnings.simplefilter('ignore')
            compile(src, '<trigger>', 'exec', dont_inherit=True)
    except SyntaxError:
        from hypothesis import reject
        reject()
    return src, sorted(t.sites)
