"""G-taint: plant one dynamic-name trigger at a generated position of a generated program."""
import ast

from hypothesis import strategies as st

from . import progs

TRIGGERS = ['exec', 'eval', 'locals', 'globals', 'vars']


@st.composite
def tainted_programs(draw):
    """Returns dict(source, twin (trigger-free source), trigger, kind)."""
    prog = draw(st.one_of(progs.programs(profile='shape', level=(3, 12)), progs.programs(profile='syntax', level=(3, 12)),
                          progs.programs(profile='shape', level=(3, 12), hoist_dense=True)))
    tree = ast.parse(prog.source)
    r = draw(st.integers(0, 9))
    if r == 0:
        # star import at module level
        pos = draw(st.integers(0, len(tree.body)))
        while pos < len(tree.body) and isinstance(tree.body[pos], ast.ImportFrom) and tree.body[pos].module == '__future__':
            pos += 1
        if pos == 0 and tree.body and isinstance(tree.body[0], ast.Expr) and isinstance(getattr(tree.body[0], 'value', None), ast.Constant):
            pos = 1
        while pos < len(tree.body) and isinstance(tree.body[pos], ast.ImportFrom) and tree.body[pos].module == '__future__':
            pos += 1
        tree.body.insert(pos, ast.ImportFrom(module=draw(st.sampled_from(['os', 'helpers', 'a.b'])), names=[ast.alias(name='*', asname=None)], level=0))
        trig, kind = 'import *', 'star-import'
    else:
        loads = [n for n in ast.walk(tree) if isinstance(n, ast.Name) and isinstance(n.ctx, ast.Load)]
        if not loads:
            tree.body.append(ast.Expr(value=ast.Name(id='x', ctx=ast.Load())))
            loads = [tree.body[-1].value]
        node = loads[draw(st.integers(0, len(loads) - 1))]
        trig = draw(st.sampled_from(TRIGGERS))
        node.id = trig
        kind = 'name'
    ast.fix_missing_locations(tree)
    try:
        import warnings
        src = ast.unparse(tree)
        with warnings.catch_warnings():
            warnings.simplefilter('ignore')
            compile(src, '<taint>', 'exec', dont_inherit=True)
    except (SyntaxError, ValueError, RecursionError):
        from hypothesis import reject
        reject()
    return {'source': src, 'twin': prog.source, 'trigger': trig, 'kind': kind, 'features': prog.features}
