"""G-taint: plant one dynamic-name trigger at a generated position of a generated program."""
import ast

from hypothesis import strategies as st

from . import progs

TRIGGERS = ['exec', 'eval', 'locals', 'globals', 'vars']


@st.composite
def tainted_programs(draw):
    """Returns dict(source, twin (trigger-free source), trigger, kind)."""
    prog = draw(st.one_of(progs.programs(profile='shape', level=(3, 12)), progs.programs(profile='syntax', level=(3, 12)),
                          progs.programs(profile='shape', level=(3, 12), hoist_dense=True)))
    tree = ast.parse(prog.source)
    r = draw(st.integers(0, 9))
    if r == 0:
        # star import at module level
        pos = draw(st.integers(0, len(tree.body)))
        while pos < len(tree.body) and isinstance(tree.body[pos], ast.ImportFrom) and tree.body[pos].module == '__future__':
            pos += 1
        if pos == 0 and tree.body and isinstance(tree.body[0], ast.Expr) and isinstance(getattr(tree.body[0], 'value', None), ast.Constant):
            pos = 1
        while pos < len(tree.body) and isinstance(tree.body[pos], ast.ImportFrom) and tree.body[pos].module == '__future__':
            pos += 1
        mod, lvl = draw(st.sampled_from([('os', 0), ('helpers', 0), ('a.b', 0), (None, 1), (None, 2), ('sibling', 1), ('pkg.mod', 2)]))
        tree.body.insert(pos, ast.ImportFrom(module=mod, names=[ast.alias(name='*', asname=None)], level=lvl))
        trig, kind = 'import *', 'star-import'
    elif r == 1:
        # the builtin as the default value of a parameter of the same name (`def f(*, eval=eval)`): defaults are evaluated in the
        # enclosing scope, where nothing binds the name, so this is a reference to the builtin
        funcs = [n for n in ast.walk(tree) if isinstance(n, (ast.FunctionDef, ast.AsyncFunctionDef, ast.Lambda))]
        trig = draw(st.sampled_from(TRIGGERS))
        if not funcs:
            f = ast.FunctionDef(name='run_it', args=ast.arguments(posonlyargs=[], args=[], vararg=None, kwonlyargs=[], kw_defaults=[], kwarg=None, defaults=[]),
                                body=[ast.Pass()], decorator_list=[], returns=None, type_comment=None, type_params=[])
            tree.body.append(f)
            funcs = [f]
        f = funcs[draw(st.integers(0, len(funcs) - 1))]
        if draw(st.booleans()):
            f.args.kwonlyargs.append(ast.arg(arg=trig, annotation=None, type_comment=None))
            f.args.kw_defaults.append(ast.Name(id=trig, ctx=ast.Load()))
            kind = 'name-as-default-of-same-named-kwonly-parameter'
        else:
            f.args.args.append(ast.arg(arg=trig, annotation=None, type_comment=None))
            f.args.defaults.append(ast.Name(id=trig, ctx=ast.Load()))
            kind = 'name-as-default-of-same-named-parameter'
    else:
        loads = [n for n in ast.walk(tree) if isinstance(n, ast.Name) and isinstance(n.ctx, ast.Load)]
        if not loads:
            tree.body.append(ast.Expr(value=ast.Name(id='x', ctx=ast.Load())))
            loads = [tree.body[-1].value]
        parents0 = {}
        for n in ast.walk(tree):
            for c in ast.iter_child_nodes(n):
                parents0[id(c)] = n

        def in_method(x):
            q = parents0.get(id(x))
            seen_func = False
            while q is not None:
                if isinstance(q, (ast.FunctionDef, ast.AsyncFunctionDef, ast.Lambda)):
                    seen_func = True
                elif isinstance(q, ast.ClassDef) and seen_func:
                    return True
                q = parents0.get(id(q))
            return False
        in_methods = [n for n in loads if in_method(n)]
        force_class = bool(in_methods) and draw(st.integers(0, 9)) < 4
        if force_class:
            loads = in_methods
        node = loads[draw(st.integers(0, len(loads) - 1))]
        trig = draw(st.sampled_from(TRIGGERS))
        node.id = trig
        kind = 'name'
        if force_class or draw(st.integers(0, 2)) == 0:
            # a class whose body binds the same name while one of its methods uses the builtin: class scopes are skipped when
            # resolving from nested functions, so this is still the builtin
            parents = {}
            for n in ast.walk(tree):
                for c in ast.iter_child_nodes(n):
                    parents[id(c)] = n
            chain = []
            q = parents.get(id(node))
            while q is not None:
                chain.append(q)
                q = parents.get(id(q))
            fi = [i for i, q in enumerate(chain) if isinstance(q, (ast.FunctionDef, ast.AsyncFunctionDef, ast.Lambda))]
            if fi:
                for q in chain[fi[0] + 1:]:
                    if isinstance(q, ast.ClassDef):
                        pos = 1 if (q.body and isinstance(q.body[0], ast.Expr) and isinstance(getattr(q.body[0], 'value', None), ast.Constant)) else 0
                        q.body.insert(pos, ast.Assign(targets=[ast.Name(id=trig, ctx=ast.Store())], value=ast.Constant(value=1), lineno=1))
                        kind = 'name+class-attribute-of-same-name'
                        break
        if kind == 'name' and draw(st.integers(0, 3)) == 0:
            # a global declaration of the trigger's name somewhere in the module: a declaration binds nothing, the name is still the builtin
            funcs = [n for n in ast.walk(tree) if isinstance(n, (ast.FunctionDef, ast.AsyncFunctionDef))]
            if funcs:
                f = funcs[draw(st.integers(0, len(funcs) - 1))]
                pos = 1 if (f.body and isinstance(f.body[0], ast.Expr) and isinstance(getattr(f.body[0], 'value', None), ast.Constant)) else 0
                f.body.insert(pos, ast.Global(names=[trig]))
                kind = 'name+global-declaration'
    ast.fix_missing_locations(tree)
    try:
        import warnings
        src = ast.unparse(tree)
        with warnings.catch_warnings():
            warnings.simplefilter('ignore')
            compile(src, '<taint>', 'exec', dont_inherit=True)
    except (SyntaxError, ValueError, RecursionError):
        from hypothesis import reject
        reject()
    return {'source': src, 'twin': prog.source, 'trigger': trig, 'kind': kind, 'features': prog.features}
