"""Shard runner: seeds, processes, evidence, replay files, known findings.

A check module (vf/checks/cXX.py) provides

    ID, LEVEL, RULE, ASSUMPTIONS
    shard(ctx)            run this shard's share of the work, recording into ctx
    replay(case) -> None | (signature, observed)     re-run the oracle on one stored case
    parent_pre(ctx) / parent_post(ctx, merged)       optional, run in the parent process

Exit codes: 0 held, 1 violation (VIOLATION line printed), 2 harness error.
"""
from __future__ import annotations

import collections
import concurrent.futures
import hashlib
import importlib
import json
import multiprocessing
import os
import sys
import time
import traceback

from . import VERIF_ROOT

NSHARDS = int(os.environ.get('VERIF_SHARDS', '16'))


def derive(seed, *parts):
    h = hashlib.sha256(repr((int(seed),) + tuple(parts)).encode()).digest()
    return int.from_bytes(h[:8], 'big')


def sha(*parts):
    h = hashlib.sha256()
    for p in parts:
        if isinstance(p, str):
            p = p.encode('utf-8', 'surrogatepass')
        elif not isinstance(p, bytes):
            p = repr(p).encode('utf-8', 'surrogatepass')
        h.update(p)
        h.update(b'\0')
    return h.hexdigest()[:16]


class Violation(Exception):
    """Raised inside a property when the oracle fails on a case that no open finding explains."""

    def __init__(self, signature, case, observed=None):
        super().__init__('%s' % (signature,))
        self.signature = signature
        self.case = case
        self.observed = observed


_vclasses = {}


def violation_class(signature):
    # One exception class per signature: Hypothesis keys "the same bug" on the exception type,
    # so shrinking keeps the signature instead of sliding into a different failure.
    key = sha(signature)
    cls = _vclasses.get(key)
    if cls is None:
        cls = type('Violation_' + key, (Violation,), {})
        _vclasses[key] = cls
    return cls


class HarnessError(Exception):
    pass


def jsonable(x, depth=0):
    if depth > 8:
        return repr(x)
    if isinstance(x, (str, int, float, bool)) or x is None:
        if isinstance(x, str):
            return x.encode('utf-8', 'backslashreplace').decode('utf-8')
        return x
    if isinstance(x, bytes):
        return {'__bytes__': x.hex()}
    if isinstance(x, dict):
        return {str(k): jsonable(v, depth + 1) for k, v in x.items()}
    if isinstance(x, (list, tuple, set, frozenset)):
        return [jsonable(v, depth + 1) for v in x]
    return repr(x)


def unjson(x):
    if isinstance(x, dict):
        if set(x) == {'__bytes__'}:
            return bytes.fromhex(x['__bytes__'])
        return {k: unjson(v) for k, v in x.items()}
    if isinstance(x, list):
        return [unjson(v) for v in x]
    return x


class Ctx(object):
    def __init__(self, check_id, tier, seed, index, nshards, findings):
        self.check_id = check_id
        self.tier = tier
        self.seed = seed
        self.index = index
        self.nshards = nshards
        self.findings = findings
        self.evaluations = 0
        self.nontrivial = set()
        self.classes = collections.Counter()
        self.samples = []
        self.known = collections.Counter()
        self.violations = []
        self.notes = collections.Counter()
        self.extra = {}
        self.max_samples = 4
        self.collected = {}
        self._shrink_cap = None
        self._shrink_deadline = None
        self._best = None
        self._best_size = None

    # -- budgets -----------------------------------------------------------------------------
    def n(self, quick, thorough):
        """Per-shard share of a case budget given for the whole tier."""
        # the thorough budgets written in the checks are about 33x the quick ones; VERIF_THOROUGH_FACTOR (default 0.3, i.e. about 10x
        # quick, 10-40 minutes per property on 16 idle cores) sizes the registered thorough command; 1.0 gives the full budgets
        total = quick if self.tier == 'quick' else int(thorough * float(os.environ.get('VERIF_THOROUGH_FACTOR', '0.3')))
        scale = float(os.environ.get('VERIF_SCALE', '1'))
        return max(1, int(total * scale / self.nshards))

    def sub_seed(self, *parts):
        return derive(self.seed, self.check_id, self.index, *parts)

    # -- recording ---------------------------------------------------------------------------
    def case(self, key, nontrivial, classes=(), sample=None):
        self.evaluations += 1
        for c in classes:
            self.classes[c] += 1
        if nontrivial:
            before = len(self.nontrivial)
            self.nontrivial.add(key if isinstance(key, str) and len(key) == 16 else sha(key))
            if sample is not None and len(self.nontrivial) > before and len(self.samples) < self.max_samples:
                self.samples.append(jsonable(sample))

    def note(self, what, n=1):
        self.notes[what] += n

    def fail(self, case, signature, observed=None):
        """Oracle failed on `case`. Either an open known finding explains it (counted, search
        goes on) or a Violation is raised for Hypothesis to shrink."""
        if 'MinifyTimeout' in repr(signature) or 'MinifyTimeout' in repr(observed)[:4000]:
            # the system under test did not return within the time bound: inconclusive, never a violation
            self.note('sut_timeout_inconclusive')
            return
        entry = self.findings.match(self.check_id, case, signature, observed)
        if entry is not None:
            self.known[entry] += 1
            return
        if os.environ.get('VERIF_COLLECT'):
            # development aid: bucket by signature, keep the smallest case, keep searching
            k = json.dumps(jsonable(signature))
            size = len(json.dumps(jsonable(case)))
            cur = self.collected.get(k)
            if cur is None or size < cur[0]:
                self.collected[k] = (size, jsonable(case), jsonable(observed), cur[3] + 1 if cur else 1)
            else:
                self.collected[k] = (cur[0], cur[1], cur[2], cur[3] + 1)
            return
        now = time.time()
        if self._shrink_deadline is not None and now > self._shrink_deadline:
            # the shrinking budget of this search is used up: stop failing so that the shrinker converges at once
            return
        if self._shrink_deadline is None and self._shrink_cap is not None:
            self._shrink_deadline = now + self._shrink_cap
        v = violation_class(signature)(signature, case, observed)
        try:
            size = len(json.dumps(jsonable(case)))
        except Exception:
            size = 10 ** 9
        if self._best is None or size < self._best_size:
            self._best = v
            self._best_size = size
        raise v

    def shrink_expired(self):
        """True once the shrinking budget of the current search is used up: callers skip the work so that the shrinker's
        remaining attempts cost nothing and it stops at once."""
        return self._shrink_deadline is not None and time.time() > self._shrink_deadline

    def begin_search(self):
        cap = float(os.environ.get('VERIF_SHRINK_SECONDS', '45' if self.tier == 'quick' else '240'))
        if os.environ.get('VERIF_NOSHRINK'):
            cap = 0.0
        self._shrink_cap = cap
        self._shrink_deadline = None
        self._best = None
        self._best_size = None

    def end_search(self):
        """Record the smallest failing case seen during the search that just ended (if any)."""
        best = self._best
        self._shrink_cap = None
        self._shrink_deadline = None
        self._best = None
        if best is not None:
            self.record_violation(best)
            return True
        return False

    def fail_direct(self, case, signature, observed=None):
        """Like fail(), for plain enumeration loops (no Hypothesis to shrink): record and go on."""
        try:
            self.fail(case, signature, observed)
        except Violation as v:
            if len(self.violations) < 5:
                self.record_violation(v)

    def record_violation(self, v):
        self.violations.append({'signature': jsonable(v.signature), 'case': jsonable(v.case),
                                'observed': jsonable(v.observed)})

    def result(self):
        return {
            'index': self.index, 'evaluations': self.evaluations, 'nontrivial': sorted(self.nontrivial),
            'classes': dict(self.classes), 'samples': self.samples, 'known': dict(self.known),
            'violations': self.violations, 'notes': dict(self.notes), 'extra': jsonable(self.extra),
            'collected': self.collected,
        }


# ---------------------------------------------------------------------------------------------
# Hypothesis driver


def hyp_run(ctx, name, strategy, prop, n, shrink=True):
    """Run `prop(case)` over `n` examples of `strategy`, deterministically in (VERIF_SEED, check, shard, name)."""
    import hypothesis
    from hypothesis import HealthCheck, Phase, given, settings

    phases = [Phase.explicit, Phase.generate, Phase.target]
    if shrink and not os.environ.get('VERIF_NOSHRINK'):
        phases.append(Phase.shrink)

    # Shrinking is bounded in wall-clock time (Hypothesis has its own 5 minute cap, far too long for a check that runs on every
    # change): once the budget is used up ctx.fail() stops raising, the shrinker converges at once, and the smallest failing
    # case seen so far becomes the replay file.
    @hypothesis.seed(ctx.sub_seed(name))
    @settings(max_examples=n, database=None, deadline=None, report_multiple_bugs=False,
              suppress_health_check=list(HealthCheck), phases=phases, derandomize=False,
              print_blob=False)
    @given(strategy)
    def test(case):
        if harness_errors or ctx.shrink_expired():
            return
        try:
            prop(case)
        except Violation:
            raise
        except BaseException as e:
            if type(e).__name__ == 'MinifyTimeout':
                ctx.note('sut_timeout_inconclusive')
                return
            if not isinstance(e, Exception):
                raise
            # a bug in the harness (or a dead worker): do not let Hypothesis spend minutes shrinking it
            harness_errors.append(traceback.format_exc()[-3000:] + '\ncase: %.2000r' % (case,))

    harness_errors = []
    ctx.begin_search()
    try:
        test()
    except BaseException:
        if not ctx.end_search() and not harness_errors:
            raise
    else:
        ctx.end_search()
    if harness_errors:
        raise HarnessError(harness_errors[0])


def _walk_exc(e):
    yield e
    for sub in getattr(e, 'exceptions', ()) or ():
        for x in _walk_exc(sub):
            yield x
    if e.__cause__ is not None:
        for x in _walk_exc(e.__cause__):
            yield x


def state_machine_run(ctx, name, machine_cls, n, steps):
    import hypothesis
    from hypothesis import HealthCheck, Phase, settings
    from hypothesis.stateful import run_state_machine_as_test

    phases = [Phase.explicit, Phase.generate, Phase.target, Phase.shrink]
    st = settings(max_examples=n, stateful_step_count=steps, database=None, deadline=None,
                  report_multiple_bugs=False, suppress_health_check=list(HealthCheck), phases=phases,
                  derandomize=False, print_blob=False)
    ctx.begin_search()
    try:
        run_state_machine_as_test(hypothesis.seed(ctx.sub_seed(name))(machine_cls), settings=st)
    except BaseException:
        if not ctx.end_search():
            raise
    else:
        ctx.end_search()


# ---------------------------------------------------------------------------------------------
# Known findings


class Findings(object):
    def __init__(self, path=None):
        path = path or os.path.join(VERIF_ROOT, 'known_findings.json')
        self.entries = []
        if os.path.exists(path):
            with open(path) as f:
                self.entries = json.load(f)['findings']

    def open_for(self, prop):
        return [e for e in self.entries if e.get('status') == 'open' and prop in e.get('properties', [e.get('property')])]

    def match(self, prop, case, signature, observed):
        from . import findings as preds
        for e in self.open_for(prop):
            m = e['match']
            fn = getattr(preds, m['predicate'])
            try:
                if fn(case, signature, observed, m):
                    return e['id']
            except Exception:
                continue
        return None


# ---------------------------------------------------------------------------------------------
# Parent side


def _note_timeouts(ctx):
    try:
        from . import api
        if api._timeouts[0]:
            ctx.note('sut_time_limit_expiries', api._timeouts[0])
            for t in api.TIMEOUT_TRACES[:3]:
                ctx.note('expired_in: ' + ' | '.join(x.strip().split('\n')[0][-90:] for x in t.strip().split('  File ')[-3:]))
    except Exception:
        pass


def _shard_entry(args):
    check_id, tier, seed, index, nshards = args
    os.environ['PYTHONHASHSEED'] = '0'
    os.environ['PYTHONDONTWRITEBYTECODE'] = '1'
    sys.setrecursionlimit(3000)
    mod = importlib.import_module('vf.checks.' + check_id.lower())
    ctx = Ctx(check_id, tier, seed, index, nshards, Findings())
    try:
        mod.shard(ctx)
        _note_timeouts(ctx)
        r = ctx.result()
    except BaseException as e:
        _note_timeouts(ctx)
        if type(e).__name__ == 'MinifyTimeout':
            # the system under test did not return in time and the family that was running has no case-level handling:
            # the rest of this shard is skipped (inconclusive), which is neither a violation nor a harness error
            ctx.note('shard_cut_short_by_sut_timeout')
            r = ctx.result()
        else:
            r = ctx.result()
            r['error'] = traceback.format_exc()
    finally:
        try:
            from .fleet import shutdown_all
            shutdown_all()
        except Exception:
            pass
    return r


def write_replay(check_id, tier, seed, v):
    d = os.path.join(VERIF_ROOT, 'replays', check_id)
    os.makedirs(d, exist_ok=True)
    name = sha(json.dumps(v, sort_keys=True)) + '.json'
    path = os.path.join(d, name)
    with open(path, 'w') as f:
        json.dump({'property': check_id, 'tier': tier, 'seed': seed, 'signature': v['signature'],
                   'case': v['case'], 'observed': v.get('observed')}, f, indent=1, sort_keys=True)
    return path


def load_case(path):
    with open(path) as f:
        d = json.load(f)
    return d, unjson(d['case'])


def run_check(check_id, tier, seed, replay=None):
    t0 = time.time()
    mod = importlib.import_module('vf.checks.' + check_id.lower())
    findings = Findings()

    if replay:
        d, case = load_case(replay)
        out = mod.replay(case)
        if out is None:
            print('replay %s: property holds on this case' % replay)
            return 0
        print('replay %s: FAILS signature=%s observed=%s' % (replay, json.dumps(jsonable(out[0])), json.dumps(jsonable(out[1]))[:2000]))
        print('VIOLATION property=%s replay=%s' % (check_id, replay))
        return 1

    violations = []
    known_lines = []

    # 1. open known findings: replay the stored repro, report it if it still fails
    for e in findings.open_for(check_id):
        for repro in e.get('repros', [e['repro']] if 'repro' in e else []):
            try:
                out = mod.replay(unjson(repro))
            except Exception:
                raise HarnessError('replay of known finding %s crashed:\n%s' % (e['id'], traceback.format_exc()))
            if out is not None:
                known_lines.append('KNOWN-FINDING: property=%s %s [%s]' % (check_id, e['what'], e['id']))
                break

    # 2. committed regression cases (shrunk failures of fixed defects, mutant killers) must pass
    regress_n = 0
    rdir = os.path.join(VERIF_ROOT, 'regress', check_id)
    if os.path.isdir(rdir):
        for fn in sorted(os.listdir(rdir)):
            if not fn.endswith('.json'):
                continue
            p = os.path.join(rdir, fn)
            d, case = load_case(p)
            out = mod.replay(case)
            regress_n += 1
            if out is not None:
                if findings.match(check_id, case, out[0], out[1]) is None:
                    violations.append({'replay': os.path.relpath(p, VERIF_ROOT), 'signature': jsonable(out[0])})

    # 3. the generated search, sharded
    nshards = getattr(mod, 'NSHARDS', NSHARDS)
    args = [(check_id, tier, seed, i, nshards) for i in range(nshards)]
    mpctx = multiprocessing.get_context('fork')
    results = []
    errors = []
    if hasattr(mod, 'parent_pre'):
        mod.parent_pre(tier, seed)
    with concurrent.futures.ProcessPoolExecutor(max_workers=min(nshards, NSHARDS), mp_context=mpctx) as ex:
        futs = [ex.submit(_shard_entry, a) for a in args]
        for f in futs:
            try:
                results.append(f.result())
            except BaseException as e:
                errors.append('shard process died: %r' % (e,))

    merged = {'evaluations': 0, 'nontrivial': set(), 'classes': collections.Counter(), 'samples': [],
              'known': collections.Counter(), 'notes': collections.Counter(), 'extra': {}}
    for r in results:
        merged['evaluations'] += r['evaluations']
        merged['nontrivial'].update(r['nontrivial'])
        merged['classes'].update(r['classes'])
        merged['known'].update(r['known'])
        merged['notes'].update(r['notes'])
        if len(merged['samples']) < 12:
            merged['samples'].extend(r['samples'][:2])
        for k, v in r['extra'].items():
            merged['extra'].setdefault(k, []).append(v)
        for v in r['violations']:
            path = write_replay(check_id, tier, seed, v)
            violations.append({'replay': os.path.relpath(path, VERIF_ROOT), 'signature': v['signature']})
        if 'error' in r:
            errors.append('shard %d:\n%s' % (r['index'], r['error']))

    collected = {}
    for r in results:
        for k, v in r.get('collected', {}).items():
            cur = collected.get(k)
            if cur is None or v[0] < cur[0]:
                collected[k] = [v[0], v[1], v[2], v[3] + (cur[3] if cur else 0)]
            else:
                cur[3] += v[3]
    if collected:
        os.makedirs(os.path.join(VERIF_ROOT, 'replays', check_id), exist_ok=True)
        with open(os.path.join(VERIF_ROOT, 'replays', check_id, 'collected.json'), 'w') as f:
            json.dump(collected, f, indent=1)
        for k, v in sorted(collected.items(), key=lambda kv: -kv[1][3]):
            print('COLLECTED x%d %s\n   case: %s\n   observed: %s' % (v[3], k, json.dumps(v[1])[:700], json.dumps(v[2])[:500]))

    for kid, n in merged['known'].items():
        e = [x for x in findings.entries if x.get('id') == kid][0]
        line = 'KNOWN-FINDING: property=%s %s [%s]' % (check_id, e['what'], kid)
        if line not in known_lines:
            known_lines.append(line)

    post = {}
    if hasattr(mod, 'parent_post'):
        post = mod.parent_post(tier, seed, merged) or {}
        for v in post.pop('violations', []):
            violations.append(v)
        if isinstance(post.get('fuzz'), dict):
            merged['evaluations'] += int(post['fuzz'].get('executions', 0))

    wall = time.time() - t0
    coverage = {
        'evaluations': merged['evaluations'] + regress_n,
        'distinct_nontrivial': len(merged['nontrivial']),
        'rule': mod.RULE,
        'samples': merged['samples'][:12],
        'classes': dict(sorted(merged['classes'].items())),
        'notes': dict(sorted(merged['notes'].items())),
        'known_finding_hits': dict(merged['known']),
        'regression_cases_replayed': regress_n,
        'shards': len(results),
        'exhaustive': bool(post.get('exhaustive', False)),
    }
    for k, v in post.items():
        if k != 'exhaustive':
            coverage[k] = v
    for k, v in merged['extra'].items():
        coverage.setdefault('extra', {})[k] = v if len(v) > 1 else v[0]
    ev = {
        'property_id': check_id, 'tier': tier, 'seed': int(seed), 'level': mod.LEVEL,
        'coverage': coverage, 'assumptions': list(mod.ASSUMPTIONS), 'wall_s': round(wall, 2),
        'violations': len(violations),
    }
    if errors:
        ev['coverage']['harness_errors'] = errors[:5]
    # sensitivity runs against a scratch copy (VERIF_REPO) must not overwrite the evidence of the real tree
    evdir = os.environ.get('VERIF_EVIDENCE_DIR') or os.path.join(VERIF_ROOT, 'evidence')
    os.makedirs(evdir, exist_ok=True)
    with open(os.path.join(evdir, check_id + '.json'), 'w') as f:
        json.dump(ev, f, indent=1, sort_keys=True)
        f.write('\n')

    for line in known_lines:
        print(line)
    print('%s tier=%s seed=%s evaluations=%d distinct_nontrivial=%d known_hits=%d wall=%.1fs' % (
        check_id, tier, seed, coverage['evaluations'], coverage['distinct_nontrivial'],
        sum(merged['known'].values()), wall))
    if violations:
        seen = set()
        for v in violations:
            k = json.dumps(v['signature'], sort_keys=True)
            if k in seen:
                continue
            seen.add(k)
            print('signature: %s' % k[:400])
            print('VIOLATION property=%s replay=%s' % (check_id, v['replay']))
        return 1
    if errors:
        for e in errors:
            sys.stderr.write('HARNESS ERROR: %s\n' % e)
        return 2
    return 0
