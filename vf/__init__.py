"""Verification framework for dflook/python-minifier (property-based testing and fuzzing)."""
import os
import sys

VERIF_ROOT = os.path.dirname(os.path.dirname(os.path.abspath(__file__)))
REPO = os.environ.get('VERIF_REPO', '/repo')
REPO_SRC = os.path.join(REPO, 'src')
DEPS = os.path.join(VERIF_ROOT, '.deps')


def bootstrap():
    """Put the repository's current working tree (and /verif/.deps) on sys.path."""
    if REPO_SRC not in sys.path:
        sys.path.insert(0, REPO_SRC)
    if os.path.isdir(DEPS) and DEPS not in sys.path:
        sys.path.append(DEPS)
    os.environ['PYTHONPATH'] = REPO_SRC + os.pathsep + VERIF_ROOT
    # The repository's own conftest forces this on; the checks want the real behaviour.
    os.environ.pop('PYMINIFY_FORCE_BEST_EFFORT', None)


bootstrap()
