#!/bin/bash
# usage: tools/try_patch.sh <patch.diff> <CHECK_ID> [tier]  -- apply a patch to a scratch copy of /repo and run one check against it
set -e
PATCH=$(realpath "$1"); ID=$2; TIER=${3:-quick}
D=$(mktemp -d /tmp/vf_mut_XXXXXX)
cp -r /repo/src "$D/src"
(cd "$D" && patch -p1 -s < "$PATCH")
cd /verif
set +e
VERIF_EVIDENCE_DIR=/tmp/vf_mutant_evidence VERIF_REPO=$D /venv/bin/python -m vf.run $ID --tier $TIER 2>&1 | grep -v "^KNOWN-FINDING" | tail -${TAIL:-6}
rc=${PIPESTATUS[0]}
rm -rf "$D"
echo "rc=$rc"
