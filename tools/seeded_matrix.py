"""Verify every seeded change and record which check catches it.

For each /verif/seeded/<id>/ (or a staging dir given with --from): apply patch.diff to a scratch worktree of /repo HEAD,
run the repository's unit tests, run demo.py against the patched and the unpatched tree, run the property's quick check
against the patched tree (VERIF_REPO), and write the outcome into meta.json.
"""
import json
import os
import shutil
import subprocess
import sys
import tempfile
import time

ROOT = os.path.dirname(os.path.dirname(os.path.abspath(__file__)))


def sh(cmd, env=None, cwd=None, timeout=3600):
    e = dict(os.environ)
    if env:
        e.update(env)
    p = subprocess.run(cmd, shell=True, cwd=cwd, env=e, stdout=subprocess.PIPE, stderr=subprocess.STDOUT, timeout=timeout)
    return p.returncode, p.stdout.decode('utf-8', 'replace')


def main():
    src_root = os.path.join(ROOT, 'seeded')
    if '--from' in sys.argv:
        src_root = sys.argv[sys.argv.index('--from') + 1]
    only = [a for a in sys.argv[1:] if a.startswith('C') and len(a) <= 4]
    extra_checks = {}
    for a in sys.argv[1:]:
        if '=' in a and a.split('=')[0].startswith('C'):
            extra_checks[a.split('=')[0]] = a.split('=')[1].split(',')
    for sid in sorted(os.listdir(src_root)):
        d = os.path.join(src_root, sid)
        if not os.path.isdir(d) or (only and sid not in only):
            continue
        out = os.path.join(ROOT, 'seeded', sid)
        os.makedirs(out, exist_ok=True)
        for f in ('patch.diff', 'demo.py', 'meta.json'):
            if os.path.abspath(d) != os.path.abspath(out) and os.path.exists(os.path.join(d, f)):
                shutil.copy(os.path.join(d, f), os.path.join(out, f))
        meta = json.load(open(os.path.join(out, 'meta.json')))
        prop = meta.get('property', sid[:3])
        wt = tempfile.mkdtemp(prefix='vf_seed_')
        os.rmdir(wt)
        rc, o = sh('git -C /repo worktree add -q %s HEAD' % wt)
        try:
            rc, o = sh('git apply %s' % os.path.join(out, 'patch.diff'), cwd=wt)
            res = {'repo_head': sh('git -C /repo rev-parse --short HEAD')[1].strip(), 'patch_applies': rc == 0}
            if rc == 0:
                rc, o = sh('/venv/bin/python -m pytest test -q -p no:cacheprovider -x 2>&1 | tail -1', env={'PYTHONPATH': wt + '/src'}, cwd=wt)
                res['unit_tests_with_patch'] = o.strip()
                rc1, _ = sh('/venv/bin/python %s' % os.path.join(out, 'demo.py'), env={'DEMO_SRC': wt + '/src'}, cwd=wt)
                rc0, _ = sh('/venv/bin/python %s' % os.path.join(out, 'demo.py'), env={'DEMO_SRC': '/repo/src'}, cwd=wt)
                res['demo_exit_with_patch'] = rc1
                res['demo_exit_without_patch'] = rc0
                res['checks'] = {}
                for cid in [prop] + extra_checks.get(sid, []):
                    t0 = time.time()
                    rc, o = sh('/venv/bin/python -m vf.run %s --tier quick' % cid, env={'VERIF_REPO': wt, 'VERIF_NOSHRINK': '1', 'VERIF_EVIDENCE_DIR': '/tmp/vf_mutant_evidence'}, cwd=ROOT)
                    sigs = [ln for ln in o.split('\n') if ln.startswith('signature:')][:3]
                    res['checks'][cid] = {'exit': rc, 'caught': rc == 1, 'seconds': round(time.time() - t0), 'signatures': sigs}
                    print(sid, cid, 'exit', rc, sigs[:1], flush=True)
            meta['verification'] = res
            json.dump(meta, open(os.path.join(out, 'meta.json'), 'w'), indent=1)
        finally:
            sh('git -C /repo worktree remove --force %s' % wt)


if __name__ == '__main__':
    main()
