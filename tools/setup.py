"""MANIFEST.setup_cmd: install third-party dependencies of the checks offline; build nothing else.

hypothesis is normally already present in /venv; atheris is optional (fuzz sub-steps are skipped without it).
"""
import os
import subprocess
import sys

ROOT = os.path.dirname(os.path.dirname(os.path.abspath(__file__)))
DEPS = os.path.join(ROOT, '.deps')
WHEELS = '/opt/veriftools/wheels'


def have(mod):
    return subprocess.call([sys.executable, '-c', 'import sys; sys.path.append(%r); import %s' % (DEPS, mod)],
                           stdout=subprocess.DEVNULL, stderr=subprocess.DEVNULL) == 0


def main():
    os.makedirs(DEPS, exist_ok=True)
    for mod, pkg in (('hypothesis', 'hypothesis'), ('atheris', 'atheris')):
        if have(mod):
            print('%s: present' % mod)
            continue
        rc = subprocess.call([sys.executable, '-m', 'pip', 'install', '--no-index', '--find-links', WHEELS,
                              '--target', DEPS, '--quiet', pkg])
        print('%s: pip rc=%d' % (mod, rc))
    if not have('hypothesis'):
        print('hypothesis is required')
        return 1
    return 0


if __name__ == '__main__':
    sys.exit(main())
