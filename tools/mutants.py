"""My own sensitivity mutants (the "sensitivity targets" of DESIGN.md section 4), as textual replacements.

For each: apply to a scratch worktree of /repo HEAD, make sure `pytest test` still passes (otherwise the mutant is not
"realistic" in the brief's sense and is reported as test-killed), run the named checks' quick tier against it
(VERIF_REPO, no shrinking) and record kill / survive in mutants/results.json.

usage: tools/mutants.py [name-substring ...]
"""
import json
import os
import subprocess
import sys
import tempfile
import time

ROOT = os.path.dirname(os.path.dirname(os.path.abspath(__file__)))
P = 'src/python_minifier/'

MUTANTS = [
    # name, file, old, new, checks
    ('arg_rename_in_place_always', P + 'rename/util.py', "        return True\n\n    return False\n\n\ndef insert", "        return True\n\n    return True\n\n\ndef insert", ['C01', 'C04']),
    ('insert_after_first_statement', P + 'rename/util.py', "            else:\n                yield new_node\n                inserted = True\n\n        yield node", "            else:\n                yield node\n                yield new_node\n                inserted = True\n                continue\n\n        yield node", ['C06', 'C01']),
    ('insert_before_docstring', P + 'rename/util.py', "            if (isinstance(node, ast.ImportFrom) and node.module == '__future__') or (\n                isinstance(node, ast.Expr) and is_constant_node(node.value, ast.Str)\n            ):", "            if (isinstance(node, ast.ImportFrom) and node.module == '__future__'):", ['C06', 'C01']),
    ('return_none_removed_in_nested_block', P + 'transforms/remove_explicit_return_none.py', "        node.body = [self.visit(a) for a in node.body]\n", "        node.body = [self.visit(a) for a in node.body]\n        for sub in node.body:\n            if isinstance(sub, ast.If) and sub.body and isinstance(sub.body[-1], ast.Return) and sub.body[-1].value is None and len(sub.body) > 1:\n                sub.body.pop()\n", ['C05', 'C01']),
    ('brackets_removed_when_shadowed', P + 'rename/binding.py', "        for node in self.references:\n            if not isinstance(node, ast.Name):\n                return True\n\n            if not isinstance(node.ctx, ast.Load):\n                return True\n\n        return False", "        return False", ['C05', 'C01']),
    ('fold_without_type_check', P + 'transforms/constant_folding.py', "    if type(a) != type(b):\n        return False\n", "", ['C07']),
    ('fold_nan_guard_removed', P + 'transforms/constant_folding.py', "        if isinstance(original_value, float) and math.isnan(original_value):", "        if False:", ['C07', 'C08']),
    ('fold_div_enabled', P + 'transforms/constant_folding.py', "        if isinstance(node.op, ast.Div):", "        if False:", ['C07']),
    ('fold_accepts_equal_length', P + 'transforms/constant_folding.py', "        if len(folded_expression) >= len(original_expression):", "        if len(folded_expression) > len(original_expression) + 1:", ['C07', 'C17']),
    ('float_1_0_printed_as_1', P + 'token_printer.py', "        elif s.endswith('.0'):\n            s = s[:-1]", "        elif s.endswith('.0'):\n            s = s[:-2]", ['C02', 'C07']),
    ('reservation_scope_only_own_namespace', P + 'rename/renamer.py', "        while node is not namespace:\n            namespaces.add(node.namespace)\n            node = node.namespace", "        pass", ['C03', 'C01']),
    ('comprehension_first_iter_in_comp_namespace', P + 'rename/mapper.py', "    iter_namespace = namespace\n    for generator in node.generators:", "    iter_namespace = node\n    for generator in node.generators:", ['C03', 'C01']),
    ('walrus_target_in_comprehension_namespace', P + 'rename/mapper.py', "    add_parent(node.target, namespace=namedexpr_namespace(node.namespace))", "    add_parent(node.target, namespace=node.namespace)", ['C03', 'C01']),
    ('precedence_bitor_bitxor_swapped', P + 'expression_printer.py', "            'BitOr': 8,\n            'BitXor': 9,", "            'BitOr': 9,\n            'BitXor': 8,", ['C02']),
    ('pow_unary_rhs_special_case_dropped', P + 'expression_printer.py', "        if isinstance(op_node, ast.Pow) and right_precedence == 14:\n            op_precedence = right_precedence", "        pass", ['C02', 'C17']),
    ('single_element_tuple_comma_dropped', P + 'expression_printer.py', "        if len(node.elts) == 1:\n            self.printer.delimiter(',')\n\n    def visit_Set", "        if len(node.elts) == 1 and False:\n            self.printer.delimiter(',')\n\n    def visit_Set", ['C02', 'C08']),
    ('any_single_decorator_renames_first_param', P + 'rename/util.py', "            elif (\n                len(func.decorator_list) == 1\n                and isinstance(func.decorator_list[0], ast.Name)\n                and func.decorator_list[0].id == 'classmethod'\n            ):", "            elif (\n                len(func.decorator_list) == 1\n            ):", ['C04', 'C01']),
    ('class_namespace_binding_renamable', P + 'rename/bind_names.py', "        if isinstance(namespace, ast.ClassDef):\n            # This name will become an attribute of the class, so it can't be renamed\n            binding.disallow_rename()\n\n        return binding", "        return binding", ['C04', 'C01']),
    ('lambda_param_renamable', P + 'rename/bind_names.py', "            if isinstance(node.namespace, ast.Lambda):\n                # Lambda function arguments can't be renamed without breaking keyword arguments\n                binding.disallow_rename()\n\n        self.generic_visit(node)", "        self.generic_visit(node)", ['C04']),
    ('dotted_import_renamable', P + 'rename/bind_names.py', "                if '.' in node.name:\n                    binding.disallow_rename()\n\n    def visit_arguments", "    def visit_arguments", ['C04', 'C03']),
    ('dunder_renamable', P + 'rename/binding.py', "        if name.startswith('__') and name.endswith('__'):\n            # System defined name\n            self.disallow_rename()", "        pass", ['C04']),
    ('unresolved_global_renamable', P + 'rename/resolve_names.py', "            binding = NameBinding(name)\n            binding.disallow_rename()\n            namespace.bindings.append(binding)\n            return binding", "            binding = NameBinding(name)\n            namespace.bindings.append(binding)\n            return binding", ['C04', 'C03']),
    ('prefix_globals_inverted', P + '__init__.py', "rename(module, prefix_globals=not rename_globals,", "rename(module, prefix_globals=rename_globals,", ['C04']),
    ('remove_pass_gate_tied_to_combine_imports', P + '__init__.py', "    if remove_pass:\n        module = RemovePass()(module)", "    if combine_imports:\n        module = RemovePass()(module)", ['C05', 'C13']),
    ('remove_object_filters_keyword_values', P + 'transforms/remove_object_base.py', None, None, ['C05']),
    ('valueless_annassign_deleted', P + 'transforms/remove_annotations.py', "            node.annotation = self.add_child(ast.Num(0), parent=get_parent(node), namespace=node.namespace)\n            return node", "            return self.add_child(ast.Pass(), parent=get_parent(node), namespace=node.namespace)", ['C05', 'C01']),
    ('import_from_merges_different_levels', P + 'transforms/combine_imports.py', "            if statement.module == prev_import.module and statement.level == prev_import.level:", "            if statement.module == prev_import.module:", ['C05']),
    ('typeddict_detection_dropped', P + 'transforms/remove_annotations.py', "            tricky_types = ['NamedTuple', 'TypedDict']", "            tricky_types = ['NamedTuple']", ['C05']),
    ('hoist_into_class_namespace', P + 'rename/rename_literals.py', "        if isinstance(node.namespace, (ast.FunctionDef, ast.Module, ast.AsyncFunctionDef)):", "        if isinstance(node.namespace, (ast.FunctionDef, ast.Module, ast.AsyncFunctionDef, ast.ClassDef)):", ['C06', 'C03']),
    ('hoisted_value_without_type', P + 'rename/rename_literals.py', "        return type(self._value) == type(other._value) and self._value == other._value", "        return self._value == other._value", ['C06']),
    ('hoisted_value_hash_without_type', P + 'rename/rename_literals.py', "        return hash(str(type(self._value)) + str(hash(self._value)))", "        return hash(self._value)", ['C06']),
    ('slots_exclusion_removed', P + 'rename/rename_literals.py', "            if isinstance(target, ast.Name) and target.id == '__slots__':\n                # This is a __slots__ assignment, don't hoist the literals\n                return None", "            pass", ['C06']),
    ('literal_statement_strings_hoisted', P + 'rename/rename_literals.py', "        if isinstance(get_parent(node), ast.Expr):\n            # This is literal statement\n            # The RemoveLiteralStatements transformer must have left it here, so ignore it.\n            return\n", "", ['C06', 'C08']),
    ('taint_trigger_vars_dropped', P + 'rename/resolve_names.py', "['exec', 'eval', 'locals', 'globals', 'vars']", "['exec', 'eval', 'locals', 'globals']", ['C09']),
    ('star_import_taint_removed', P + 'rename/bind_names.py', "        if node.name == '*':\n            get_global_namespace(node).tainted = True\n", "", ['C09']),
    ('rename_globals_not_cleared_when_tainted', P + '__init__.py', "    if module.tainted:\n        rename_globals = False\n        rename_locals = False", "    if module.tainted:\n        rename_locals = False", ['C09']),
    ('hoisting_not_gated_on_taint', P + '__init__.py', "    if hoist_literals and not module.tainted:", "    if hoist_literals:", ['C09']),
    ('preserve_locals_applied_to_module_only', P + 'rename/util.py', "            elif binding.name in preserve_locals:\n                binding.disallow_rename()", "            elif binding.name in preserve_locals and isinstance(node, ast.Lambda):\n                binding.disallow_rename()", ['C10']),
    ('all_augassign_ignored', P + 'rename/util.py', "        elif isinstance(node, (ast.AugAssign, ast.AnnAssign)):", "        elif isinstance(node, ast.AnnAssign):", ['C10']),
    ('reserved_globals_not_reserved', P + 'rename/renamer.py', "        if reserved_globals is not None:\n            for name in reserved_globals:\n                module.assigned_names.add(name)", "        pass", ['C10', 'C03']),
    ('preserve_string_not_normalised', P + '__init__.py', "    elif isinstance(preserve_globals, str):\n        preserve_globals = [preserve_globals]", "    elif False:\n        pass", ['C10']),
    ('awslambda_drops_entrypoint', P + '__init__.py', "rename_globals=rename_globals, preserve_globals=[entrypoint],", "rename_globals=rename_globals, preserve_globals=[],", ['C10']),
    ('cli_preserve_split_without_strip', P + '__main__.py', "            names = [name.strip() for name in arg.split(',') if name]\n            preserve_globals.extend(names)", "            names = [name for name in arg.split(',') if name]\n            preserve_globals.extend(names)", ['C13', 'C10']),
    ('class_level_hoisted_dict', P + 'rename/rename_literals.py', "        self._hoisted = {}\n        self.visit(module)", "        self._hoisted = self.__class__.__dict__.get('_shared') or {}\n        type(self)._shared = self._hoisted\n        self.visit(module)", ['C11', 'C08']),
    ('default_options_object_mutated', P + '__init__.py', "    elif isinstance(remove_annotations, RemoveAnnotationsOptions):\n        remove_annotations_options = remove_annotations", "    elif isinstance(remove_annotations, RemoveAnnotationsOptions):\n        remove_annotations_options = remove_annotations\n        if rename_globals:\n            remove_annotations_options.remove_class_attribute_annotations = True", ['C11']),
    ('ministring_backslash_unescaped', P + 'ministring.py', "            '\\\\': BACKSLASH + BACKSLASH,\n            '\\a': BACKSLASH + 'a',\n            '\\b': BACKSLASH + 'b',\n            '\\f': BACKSLASH + 'f',\n            '\\r': BACKSLASH + 'r',\n            '\\t': BACKSLASH + 't',\n            '\\v': BACKSLASH + 'v',\n            '\\0': BACKSLASH + 'x00',\n            self.quote: BACKSLASH + self.quote,", "            '\\a': BACKSLASH + 'a',\n            '\\b': BACKSLASH + 'b',\n            '\\f': BACKSLASH + 'f',\n            '\\r': BACKSLASH + 'r',\n            '\\t': BACKSLASH + 't',\n            '\\v': BACKSLASH + 'v',\n            '\\0': BACKSLASH + 'x00',\n            self.quote: BACKSLASH + self.quote,", ['C12', 'C02']),
    ('fold_operands_any_unaryop', P + 'transforms/constant_folding.py', "        if not is_constant_node(node.left, (ast.Num, ast.NameConstant)):\n            return node", "        if not is_constant_node(node.left, (ast.Num, ast.NameConstant)) and not isinstance(node.left, ast.UnaryOp):\n            return node", ['C12']),
    ('cli_dest_swapped', P + '__main__.py', "        dest='remove_asserts',\n    )\n    minification_options.add_argument(\n        '--remove-debug',", "        dest='remove_debug',\n    )\n    minification_options.add_argument(\n        '--remove-debug',", ['C13']),
    ('cli_store_false_inverted', P + '__main__.py', "        '--no-constant-folding',\n        action='store_false',", "        '--no-constant-folding',\n        action='store_true',", ['C13']),
    ('cli_keyword_dropped', P + '__main__.py', "        convert_posargs_to_args=minification_args.convert_posargs_to_args,\n", "", ['C13']),
    ('cli_class_attribute_validation_removed', P + '__main__.py', "    if args.remove_class_attribute_annotations and not args.remove_annotations:", "    if False:", ['C13']),
    ('size_check_in_characters', P + '__main__.py', "    if len(minified_bytes) > len(source):", "    if len(minified_result) > len(source):", ['C14']),
    ('size_check_inverted', P + '__main__.py', "    if len(minified_bytes) > len(source):", "    if len(minified_bytes) < len(source):", ['C14', 'C13']),
    ('override_env_is_not_none', P + '__main__.py', "    if os.environ.get('PYMINIFY_FORCE_BEST_EFFORT'):", "    if os.environ.get('PYMINIFY_FORCE_BEST_EFFORT') is not None:", ['C14']),
    ('fallback_writes_reencoded_text', P + '__main__.py', "                elif args.output:\n                    # Write original source to output\n                    with open(args.output, 'wb') as f:\n                        f.write(source)", "                elif args.output:\n                    # Write original source to output\n                    with open(args.output, 'wb') as f:\n                        f.write(source.decode('utf-8', 'replace').encode('utf-8'))", ['C14']),
    ('suffix_test_loosened', P + '__main__.py', "                    if file.endswith(('.py', '.pyw')):", "                    if '.py' in file:", ['C15']),
    ('error_swallowed_loop_continues', P + '__main__.py', "            try:\n                minified = do_minify(source, path, args)\n            except MinificationNotBeneficialError:", "            try:\n                minified = do_minify(source, path, args)\n            except SyntaxError:\n                continue\n            except MinificationNotBeneficialError:", ['C15']),
    ('destination_opened_before_minify', P + '__main__.py', "            with open(path, 'rb') as f:\n                source = f.read()\n\n            try:\n                minified = do_minify(source, path, args)", "            with open(path, 'rb') as f:\n                source = f.read()\n\n            if args.in_place:\n                open(path, 'wb').close()\n\n            try:\n                minified = do_minify(source, path, args)", ['C15']),
    ('followlinks_dropped', P + '__main__.py', "followlinks=True", "followlinks=False", ['C15']),
    ('shebang_bytes_branch_removed', P + '__init__.py', "    if isinstance(source, bytes):\n        shebang = re.match(br'^#![^\\r\\n]*', source)\n        if shebang:\n            return shebang.group().decode(_source_encoding(source), 'replace')\n    else:", "    if isinstance(source, bytes):\n        return None\n    else:", ['C16']),
    ('shebang_without_newline', P + '__init__.py', "            return shebang_line + '\\n' + minified", "            return shebang_line + ' ' + minified", ['C16', 'C08']),
    ('cli_encodes_with_errors_ignore', P + '__main__.py', "    minified_bytes = minified_result.encode('utf-8')", "    minified_bytes = minified_result.encode('ascii', 'ignore')", ['C16', 'C13']),
    ('stringliteral_uses_str_for_ascii', P + 'token_printer.py', "        s = repr(value)\n\n        if sys.version_info < (3, 0) and self.unicode_literals:", "        s = repr(value)\n        if '\\\\x' in s and \"'\" not in value and '\\\\' not in value and '\\n' not in value and '\\r' not in value:\n            s = \"'\" + value + \"'\"\n\n        if sys.version_info < (3, 0) and self.unicode_literals:", ['C16', 'C02']),
    ('should_rename_ignores_additional_cost', P + 'rename/binding.py', "        rename_cost = (old_mentions * len(self._name)) + (new_mentions * len(new_name)) + additional_bytes", "        rename_cost = (old_mentions * len(self._name)) + (new_mentions * len(new_name))", ['C17']),
    ('hoisted_should_rename_ignores_assignment', P + 'rename/rename_literals.py', "        rename_cost = (self.old_mention_count() * len(repr(self.value))) + ((self.new_mention_count()) * len(new_name)) + self.additional_byte_cost()", "        rename_cost = ((self.new_mention_count()) * len(new_name))", ['C17']),
    ('name_not_pinned_when_rename_stops_paying', P + 'rename/renamer.py', "                else:\n                    # Any existing name will become reserved\n                    binding.disallow_rename()", "                else:\n                    pass", ['C03', 'C17']),
]


def sh(cmd, env=None, cwd=None, timeout=7200):
    e = dict(os.environ)
    if env:
        e.update(env)
    p = subprocess.run(cmd, shell=True, cwd=cwd, env=e, stdout=subprocess.PIPE, stderr=subprocess.STDOUT, timeout=timeout)
    return p.returncode, p.stdout.decode('utf-8', 'replace')


def main():
    want = [a for a in sys.argv[1:]]
    out_path = os.path.join(ROOT, 'mutants', 'results.json')
    os.makedirs(os.path.dirname(out_path), exist_ok=True)
    results = json.load(open(out_path)) if os.path.exists(out_path) else {}
    for name, path, old, new, checks in MUTANTS:
        if want and not any(w in name for w in want):
            continue
        if old is None:
            continue
        wt = tempfile.mkdtemp(prefix='vf_mut_')
        os.rmdir(wt)
        sh('git -C /repo worktree add -q %s HEAD' % wt)
        try:
            fp = os.path.join(wt, path)
            s = open(fp).read()
            if s.count(old) != 1:
                results[name] = {'status': 'does-not-apply (%d matches)' % s.count(old)}
                print(name, results[name], flush=True)
                continue
            open(fp, 'w').write(s.replace(old, new))
            rc, o = sh('timeout 300 /venv/bin/python -m pytest test -q -p no:cacheprovider -x 2>&1 | tail -1', env={'PYTHONPATH': wt + '/src'}, cwd=wt)
            res = {'file': path, 'unit_tests': o.strip() or 'hang/timeout', 'checks': {}}
            if ' failed' in o or 'error' in o.lower() or ' passed' not in o:
                res['status'] = 'killed-by-existing-tests'
            else:
                caught = False
                for cid in checks:
                    t0 = time.time()
                    rc, o = sh('/venv/bin/python -m vf.run %s --tier quick' % cid, env={'VERIF_REPO': wt, 'VERIF_NOSHRINK': '1', 'VERIF_EVIDENCE_DIR': '/tmp/vf_mutant_evidence'}, cwd=ROOT)
                    sigs = [ln[:200] for ln in o.split('\n') if ln.startswith('signature:')][:2]
                    res['checks'][cid] = {'exit': rc, 'seconds': round(time.time() - t0), 'signatures': sigs}
                    if rc == 1:
                        caught = True
                        break
                res['status'] = 'killed' if caught else 'SURVIVED'
            results[name] = res
            print(name, res['status'], {k: v['exit'] for k, v in res['checks'].items()}, flush=True)
            json.dump(results, open(out_path, 'w'), indent=1, sort_keys=True)
        finally:
            sh('git -C /repo worktree remove --force %s' % wt)


if __name__ == '__main__':
    main()
