"""Regenerate MANIFEST.json from the table below (only checks whose module exists are claimed)."""
import json
import os

ROOT = os.path.dirname(os.path.dirname(os.path.abspath(__file__)))

CHECKS = {
    'C01': dict(cat='exploration', ref='4/C01', technique='differential execution of generated runnable programs (Hypothesis), original vs minified, over subsets of the safe options',
                text='Generated runnable, terminating programs are executed before and after minification under sampled subsets of the 13 default-on switches; stdout, terminating exception class and the public namespace must agree. Sampling, not proof: the claim is "held on N generated programs of the stated shape".',
                note='Trusts the in-process exec harness (fresh namespace per run, 2 s timer = inconclusive). Programs avoid the documented reflective views (names of locals, annotations, line numbers) by construction.'),
    'C02': dict(cat='exploration', ref='4/C02', technique='round-trip property: strict AST comparison of parse(unparse(parse(S))) over exhaustive small-scope trees, generated modules, corpus files, on 9 interpreters',
                text='Exhaustive enumeration of every (parent, slot, child) expression combination and depth-3 operator chains, plus Hypothesis-generated modules, corpus files and python-2 templates, each re-parsed in the interpreter under test and compared with an independent strict comparator (constant type, value, sign).',
                note='The interpreter\'s own ast.parse defines the tree; positions, Constant.kind and type comments are not structure. Depth-bounded trees.'),
    'C03': dict(cat='exploration', ref='4/C03', technique='generated scope-shape programs; alpha-equivalence via an independent scope resolver (validated against symtable) and CPython code-object comparison',
                text='Hypothesis-generated nestings of module/function/class/lambda/comprehension scopes with every binding form over a small name pool; the output must compile, align structurally with the un-renamed baseline, and every identifier occurrence must resolve to the corresponding binding (bijection per scope, unbound names fixed).',
                note='Resolver is independent of python_minifier and self-validated against symtable under 3.11; code-object comparison lets CPython\'s compiler decide the resolution.'),
    'C04': dict(cat='exploration', ref='4/C04', technique='generated interface-dense programs x option sets; lock-step identifier comparison at interface positions',
                text='For generated programs and sampled option sets over all 18 switches, identifiers at interface positions (attributes, keywords, import names, dunders, class-body bindings, keyword-callable parameters, unbound names, module-level names) are compared between input and output trees.',
                note='Alignment assumes the non-renaming transforms keep statement order (checked separately by C05).'),
    'C05': dict(cat='exploration', ref='4/C05', technique='metamorphic: canon_O(P) == canon_O(minify(P,O)) with an independent canonicaliser written from the docs, over trigger-dense generated programs x option sets',
                text='Trigger-dense generated programs (every documented rewrite site and its near misses) x sampled option sets; a reference canonicaliser erases exactly the documented rewrites of the enabled options on both sides and the results must be strictly equal; output must compile.',
                note='canon_O is written from docs/source/transforms/*.rst; conservative implementations (rewriting less) pass by construction.'),
    'C06': dict(cat='exploration', ref='4/C06', technique='generated hoist-dense programs; structural invariants of every introduced alias + strict value identity + inlining round trip',
                text='Hoist-dense generated programs; every introduced alias must be a single assignment at the documented position of an enclosing function/module body, to a constant strictly identical to each literal it replaces; inlining the aliases must give back the un-hoisted tree; docstrings and __future__ imports keep their place.',
                note='Baseline for alignment is the same option set with hoisting off.'),
    'C07': dict(cat='exploration', ref='4/C07', technique='differential evaluation of generated literal-only arithmetic expressions before/after folding, in each interpreter',
                text='Literal-only arithmetic trees in many syntactic contexts; each marked expression is evaluated before and after minification inside the interpreter under test and must agree in type, repr and exception class; output never longer. A second family executes modules that capture the value where it is evaluated (defaults, decorators, class bodies, closures) before and after minification with all safe options.',
                note='Exponents/shifts bounded for memory; eval with empty namespaces.'),
    'C08': dict(cat='exploration', ref='4/C08', technique='robustness fuzzing: generated modules, corpus, breaking edits, atheris byte fuzz x all option sets x 9 interpreters; oracle "returns and output compiles" / "raises what ast.parse raises"',
                text='Every generator of this framework plus corpus files and generated breaking edits, under option sets over all 18 switches and on every installed interpreter: compilable input must return compilable output; unparseable input must raise exactly the class ast.parse raises.',
                note='compile() of the running interpreter defines validity. Nesting depth bounded below the recursion limit.'),
    'C09': dict(cat='exploration', ref='4/C09', technique='metamorphic: with a planted taint trigger, name-touching options must not change the output; independent identifier multiset comparison',
                text='Generated programs with one dynamic-name trigger planted at a generated position; output text must equal the output with renaming and hoisting off, identifiers per scope unchanged.',
                note='Trigger resolution (builtin vs shadowed) decided by the independent scope resolver.'),
    'C10': dict(cat='exploration', ref='4/C10', technique='generated programs x preserve lists drawn from their own names; lock-step identifier comparison + metamorphic relations on the list argument',
                text='Preserve lists are drawn from the names of generated programs (local, global, builtin, absent, duplicated; list / str / None spellings; __all__; awslambda entrypoint); every binding of a preserved name keeps its spelling and preserving changes nothing but identifiers.',
                note='Kinds (local vs global) decided by the independent scope resolver.'),
    'C11': dict(cat='exploration', ref='4/C11', technique='stateful model-based testing (Hypothesis rule-based machine) against fresh-process results; hash-seed sweep; harness-owned thread schedules',
                text='Histories of API calls reusing caller-owned objects must equal fresh-process results and leave arguments equal to deep copies; outputs across PYTHONHASHSEED values must be byte-identical; threads interleaved at function-call granularity under a generated schedule must equal sequential results.',
                note='Schedules are owned at python_minifier function-call granularity only.'),
    'C12': dict(cat='exploration', ref='4/C12', technique='fuzzing (Hypothesis hostile-literal generator + atheris byte fuzz) under an execution monitor: audit hook + eval/exec wrappers; every evaluated code object must be a closed literal expression',
                text='Adversarial strings/bytes/f-strings/number literals; while minify runs, every code object evaluated from a python_minifier frame must have no names and no nested code, and no import/open/process/socket audit event may occur.',
                note='Python-level audit events only.'),
    'C13': dict(cat='exploration', ref='4/C13', technique='model-based differential: CLI bytes vs API result under a flag->kwargs table written from the docs; exhaustive over flag subsets in-process',
                text='All subsets of the 19 boolean flags (thorough: exhaustive, quick: small subsets, complements and a random sample) on sentinel sources, plus generated sources, preserve-list spellings, input/output modes and a subprocess sample; CLI bytes must equal the UTF-8 of the API result under the documented mapping, invalid combinations rejected before writing.',
                note='The flag table is written from the documentation, not from __main__.py.'),
    'C14': dict(cat='exploration', ref='4/C14', technique='generated byte sources on both sides of the size rule x flags x output modes; oracle len(written) <= len(source) and exact equality with the API result',
                text='Byte sources chosen to grow or shrink under minification (encodings, tiny files, already-minimal output) x flag sets x five output modes x override variable; what is written must be the API result if not larger, else the original bytes.',
                note='In-process CLI with patched argv/stdio plus a subprocess sample.'),
    'C15': dict(cat='fault_enumeration', ref='4/C15', technique='generated directory trees with injected faulty files; file-tree model (post-state in {pre, minified(pre)}, visiting order from the path listing)',
                text='Generated trees (nested dirs, non-python files, symlinks, invalid/undecodable/dangling files) and path lists; after the run every non-target is byte-identical, every visited target holds E^k(pre), the failing file is untouched, unvisited files untouched, exit status non-zero iff a fault.',
                note='Permission faults are emulated with dangling links (root ignores modes); symlink cycles excluded.'),
    'C16': dict(cat='exploration', ref='4/C16', technique='generated programs x encodings/BOM/newlines/shebangs; interpreter-decoded strict AST equality and first-line rule; bytes-vs-text agreement',
                text='Programs with non-ASCII constants encoded with cookie/BOM/newline/shebang variations; the output (as str and as the UTF-8 bytes the CLI writes) must parse to the same tree as the interpreter\'s own decoding of the input; shebang first-line rule; api(bytes)==api(text).',
                note='The interpreter\'s own decoder is the reference for cookie/BOM/newline semantics.'),
    'C17': dict(cat='exploration', ref='4/C17', technique='metamorphic size relation len(on) <= len(off) over a pinned corpus of real modules x 11 size options x 2 bases',
                text='For every file of the pinned corpus (quick: a seeded sample; thorough: all), each size option and two base option sets, enabling the option must not lengthen the output.',
                note='Corpus pinned by sha256; files that differ are skipped and counted.'),
}


def main():
    checks = []
    na = []
    for cid in sorted(CHECKS):
        c = CHECKS[cid]
        if not os.path.exists(os.path.join(ROOT, 'vf', 'checks', cid.lower() + '.py')):
            na.append({'property_id': cid, 'reason': 'check not yet built in this revision of /verif (planned, see DESIGN.md section 4/%s)' % cid})
            continue
        checks.append({
            'property_id': cid,
            'quick_cmd': '/venv/bin/python -m vf.run %s --tier quick' % cid,
            'thorough_cmd': '/venv/bin/python -m vf.run %s --tier thorough' % cid,
            'evidence_file': 'evidence/%s.json' % cid,
            'replay_cmd_template': '/venv/bin/python -m vf.run %s --replay {path}' % cid,
            'engine': 'vf',
            'level_claimed': {'category': c['cat'], 'text': c['text'], 'design_ref': 'DESIGN.md section ' + c['ref']},
            'level_note': c['note'],
            'technique': c['technique'],
        })
    m = {
        'version': 1,
        'setup_cmd': '/venv/bin/python tools/setup.py',
        'hooks': {
            'guard': 'PYTHON_MINIFIER_VERIF',
            'enable': 'no source hooks are needed: checks import /repo/src directly (PYTHONPATH) and observe through audit hooks, sys.settrace and in-process CLI invocation',
            'baseline_off_cmd': 'cd /repo && /venv/bin/python -m pytest -ra -q -p no:cacheprovider --timeout=900 --continue-on-collection-errors',
            'source_commits': [],
            'add_only': True,
        },
        'engines': [{'name': 'vf', 'path': 'vf/', 'serves_properties': [c['property_id'] for c in checks],
                     'kind_free_text': 'Hypothesis strategies / state machines, exhaustive enumeration, multi-interpreter JSON-lines workers; python -m vf.run <ID>'}],
        'checks': checks,
        'notes': 'Known findings are listed in known_findings.json; see DESIGN.md sections 5 and 9.',
        'not_applicable': na,
    }
    with open(os.path.join(ROOT, 'MANIFEST.json'), 'w') as f:
        json.dump(m, f, indent=1)
        f.write('\n')
    print('claimed:', [c['property_id'] for c in checks], 'not yet:', [n['property_id'] for n in na])


if __name__ == '__main__':
    main()
