"""Build corpus/manifest.json: pinned list (path, sha256, size, group) of real modules present in the image."""
import hashlib, json, os, sys, ast, warnings

ROOTS = [
    ('stdlib312', '/root/.pyenv/versions/3.12.1/lib/python3.12', 40000),
]
out = []
warnings.simplefilter('ignore')
for group, root, maxsize in ROOTS:
    for dp, dns, fns in os.walk(root):
        dns.sort()
        rel = os.path.relpath(dp, root)
        if rel.startswith(('site-packages', 'lib2to3/tests/data', 'test/bad', 'idlelib', 'turtledemo', 'tkinter', 'ensurepip', 'config-')) or '__pycache__' in rel:
            continue
        parts = rel.split(os.sep)
        if len(parts) > 3:
            continue
        for fn in sorted(fns):
            if not fn.endswith('.py'):
                continue
            p = os.path.join(dp, fn)
            data = open(p, 'rb').read()
            if not (50 < len(data) <= maxsize):
                continue
            try:
                compile(data, p, 'exec', dont_inherit=True)
            except Exception:
                continue
            g = group + ('-test' if parts[0] == 'test' else '')
            out.append({'path': p, 'sha256': hashlib.sha256(data).hexdigest(), 'size': len(data), 'group': g})
# the repository's own sources
for dp, dns, fns in os.walk('/repo/src'):
    dns.sort()
    for fn in sorted(fns):
        if fn.endswith('.py'):
            p = os.path.join(dp, fn)
            data = open(p, 'rb').read()
            if len(data) > 50:
                out.append({'path': p, 'sha256': None, 'size': len(data), 'group': 'repo'})
json.dump({'files': out}, open(os.path.join(os.path.dirname(__file__), '..', 'corpus', 'manifest.json'), 'w'), indent=0)
import collections
print(collections.Counter(f['group'] for f in out), sum(f['size'] for f in out))
