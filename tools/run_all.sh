#!/bin/bash
# Run every registered quick (or $1=thorough) check on the real tree and report exit status + wall time.
TIER=${1:-quick}
cd "$(dirname "$0")/.."
for id in C01 C02 C03 C04 C05 C06 C07 C08 C09 C10 C11 C12 C13 C14 C15 C16 C17; do
  s=$(date +%s)
  /venv/bin/python -m vf.run $id --tier $TIER > /tmp/run_all_$id.log 2>&1
  rc=$?
  e=$(date +%s)
  echo "$id rc=$rc $((e-s))s $(grep -c '^KNOWN-FINDING' /tmp/run_all_$id.log) known  $(grep -c '^VIOLATION' /tmp/run_all_$id.log) violations"
done
