#!/bin/bash
# Run the repository's pinned baseline suite on a given tree (default /repo) and compare with BASELINE.json stable_pass.
# usage: tools/baseline.sh [repo_dir] [out_prefix]
REPO=${1:-/repo}
OUT=${2:-/tmp/baseline_$$}
cd "$REPO" && env -u PYTHON_MINIFIER_VERIF PYTHONPATH="$REPO/src" /venv/bin/python -m pytest -ra -q -p no:cacheprovider --timeout=900 --continue-on-collection-errors --junitxml=$OUT.xml > $OUT.log 2>&1
BASELINE_REPO_DIR="$REPO" /venv/bin/python - "$OUT.xml" <<'PY'
import json, sys, xml.etree.ElementTree as ET
base = json.load(open('/root/.vp/BASELINE.json'))
stable = set(base['stable_pass'])
import os
REPO_DIR = os.environ.get('BASELINE_REPO_DIR', '/repo')
passed = set(); failed = set()
for tc in ET.parse(sys.argv[1]).getroot().iter('testcase'):
    name = (tc.get('classname') + '::' + tc.get('name')).replace(REPO_DIR, '/repo')
    bad = any(c.tag in ('failure', 'error', 'skipped') for c in tc)
    (failed if bad else passed).add(name)
missing = sorted(stable - passed)
print('stable_pass=%d passed_now=%d stable_not_passing_now=%d' % (len(stable), len(passed), len(missing)))
for m in missing[:40]:
    print('  NOT PASSING:', m)
PY
