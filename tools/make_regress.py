"""Write regress/<ID>/*.json (former repros of fixed defects) and the `fixed` entries of known_findings.json."""
import json
import os
import sys

ROOT = os.path.dirname(os.path.dirname(os.path.abspath(__file__)))
sys.path.insert(0, ROOT)
import vf  # noqa
from vf import api  # noqa
from vf.runner import jsonable  # noqa

D = dict(api.DEFAULTS)
OFF = dict(api.ALL_OFF)


def o(base, **kw):
    d = dict(base)
    d.update(kw)
    return d


FIXED = [
    # (commit, properties, what, [(check, name, case)])
    ('9f92b61', ['C08', 'C02'], "'with ((a, b)): pass' raised UnstableMinification (printed as two with-items)",
     [('C08', 'with_tuple', {'source': 'with ((a, b)): pass\n', 'opts': D}), ('C02', 'with_tuple', {'source': 'with ((a, b)): pass\n'})]),
    ('0bc844a', ['C08', 'C02'], 'hex integer literal whose decimal form exceeds 4300 digits raised ValueError in TokenPrinter.integer',
     [('C08', 'huge_hex_int', {'source': 'x = 0x' + 'f' * 4000 + '\n', 'opts': D}), ('C02', 'huge_hex_int', {'source': 'x = 0x' + 'f' * 4000 + '\n'})]),
    ('a81770f', ['C08', 'C02'], "f'{not b\"a\"}' (bytes literal after a keyword inside an f-string expression) raised ValueError",
     [('C08', 'fstring_bytes_after_keyword', {'source': "x = f'{not b\"a\"}'\n", 'opts': D}), ('C02', 'fstring_bytes_after_keyword', {'source': "x = f'{x and b\"\"}'\n"})]),
    ('1915f27', ['C08', 'C02'], "empty f-string nested in an f-string expression (f'{f\"\"}') raised ValueError",
     [('C08', 'nested_empty_fstring', {'source': "x = f'{f\"\"}'\n", 'opts': D}), ('C02', 'nested_empty_fstring', {'source': "x = f'{f\"\"}'\n"})]),
    ('c0ee968', ['C08', 'C02'], "bytes/str literal with backslash, NUL, CR/LF or non-ASCII byte nested in an f-string expression (3.12+) raised ValueError",
     [('C08', 'pep701_nested_bytes_backslash', {'source': "v = f'{b'\\\\'}'\nw = f'{b'\\r'!r}'\nx = f'{'\\x00'!a}'\ny = f'{b'\\xff\\n'}'\n", 'opts': D}),
      ('C02', 'pep701_nested_bytes_backslash', {'source': "v = f'{b'\\\\'}'\nx = f'{'\\x00'!a}'\n"})]),
    ('fc82521', ['C03', 'C08', 'C01'], "walrus target inside a comprehension received the same new name as the iteration variable: '[(B:=A+B)for B in range(A)]' (compile error) with default options",
     [('C08', 'walrus_in_comprehension', {'source': 'def f(long_argument):\n    return [long_value := long_argument + long_item for long_item in range(long_argument)], long_value\n', 'opts': D}),
      ('C03', 'walrus_in_comprehension', {'source': 'def f(long_argument):\n    return [long_value := long_argument + long_item for long_item in range(long_argument)], long_value\nprint(f(3))\n', 'opts': o(OFF, rename_locals=True)})]),
    ('db52d72', ['C08', 'C02'], "match case guard that is a tuple or yield expression was printed without parentheses (UnstableMinification)",
     [('C08', 'match_guard_tuple', {'source': 'match a:\n    case 1 if (b, c):\n        pass\n', 'opts': D}), ('C02', 'match_guard_yield', {'source': 'def f():\n    match a:\n        case 1 if (yield):\n            pass\n'})]),
    ('217f71f', ['C08', 'C02'], "str with a lone surrogate nested in an f-string expression (3.12+) raised ValueError",
     [('C08', 'pep701_nested_surrogate', {'source': "x = f'{'\\ud800'}'\n", 'opts': D}), ('C02', 'pep701_nested_surrogate', {'source': "x = f'{'\\ud800'}'\n"})]),
    ('aeeba01', ['C08', 'C02'], "backslash, CR, NUL or surrogate in the literal text of a nested f-string or of a format spec (3.12+) raised ValueError",
     [('C08', 'pep701_nested_text_escapes', {'source': "x = f'{f'\\\\'}'\ny = f'{f'\\r'}'\nz = f'{a:\\x00}'\nw = f'{a:\\r}'\n", 'opts': D}),
      ('C02', 'pep701_nested_text_escapes', {'source': "x = f'{f'\\\\'}'\nz = f'{a:\\x00}'\n"})]),
    ('d4bb489', ['C08', 'C02'], "Python 2 'exec (a if b else c) in g' was printed without parentheses around the body (UnstableMinification)",
     [('C08', 'py2_exec_body', {'source': 'exec(a if b else c, g)\nexec (a or b)\n', 'opts': OFF, 'interp': '2.7'}), ('C02', 'py2_exec_body', {'source': 'exec(a if b else c, g)\n', 'interp': '2.7'})]),
    ('855fe7f', ['C16'], "CR-only line endings: the shebang regex matched across \\r, the program was emitted twice",
     [('C16', 'cr_only_shebang', {'bytes': b'#!/usr/bin/env python\rprint(1)\r', 'text': '#!/usr/bin/env python\rprint(1)\r', 'preserve': True, 'cli': True})]),
    ('c5df3df', ['C08', 'C16'], "bytes source with a non-UTF-8 byte in the shebang line raised UnicodeDecodeError",
     [('C08', 'shebang_non_utf8_byte', {'source': b'#!/us\xc3r/bin/env python\nprint(1)\n', 'opts': D}),
      ('C16', 'shebang_latin1_byte', {'bytes': b"#!/usr/bin/python\xe9\n# coding: latin-1\nprint('\xe9')\n", 'text': "#!/usr/bin/python\xe9\n# coding: latin-1\nprint('\xe9')\n", 'preserve': True, 'cli': True})]),
    ('45c5578', ['C17'], "numeric constants 0, 1, 0.0, 1.0 were dispatched as name constants; hoisting 0.0/1.0 lengthened colorsys.py by 12 characters",
     []),
    ('4b31bde', ['C08', 'C02'], "format spec or nested f-string text containing every quote style (3.12+) raised ValueError",
     [('C08', 'pep701_spec_all_quotes', {'source': 'x = f"{name:\'\'\'\\x22\\x22\\x22{width}}"\n', 'opts': D}), ('C02', 'pep701_spec_all_quotes', {'source': 'x = f"{name:\'\'\'\\x22\\x22\\x22{width}}"\n'})]),
    ('bb23ea9', ['C11'], "minify() extended the caller's preserve_locals/preserve_globals lists in place (later calls with the same list differed)",
     [('C11', 'caller_list_mutated', {'history': [{'rule': 'minify', 'i': 0, 'opts': o(D, rename_globals=True), 'share_pl': True, 'share_pg': True, 'pl': [], 'pg': [], 'share_rao': False, 'use_bytes': False},
                                                  {'rule': 'minify', 'i': 1, 'opts': o(D, rename_globals=True), 'share_pl': True, 'share_pg': True, 'pl': [], 'pg': [], 'share_rao': False, 'use_bytes': False}]})]),
    ('19fb041', ['C01'], "convert_posargs_to_args turned 'def f(a, /, **kw)'; 'f(1, a=2)' into a TypeError",
     [('C01', 'posonly_with_kwargs', {'source': 'def f(a, /, **kw):\n    return sorted(kw.items())\nprint(f(1, a=2))\n', 'opts': o(OFF, convert_posargs_to_args=True)})]),
    ('3ef7637', ['C03'], "annotations of *args/**kwargs were resolved in the function's own namespace (renamed with a same-named parameter, or hoisted into the body): NameError at definition time",
     [('C03', 'vararg_annotation_namespace', {'source': 'config_data = int\ndef function_name(config_data, *alpha_value: config_data, **other_thing: config_data):\n    return alpha_value, config_data, config_data, config_data, other_thing\n', 'opts': o(OFF, rename_locals=True)})]),
    ('5f405eb', ['C03'], "'global counter_total, C' became 'global D,D' when one name's new name equalled the other's old name",
     [('C03', 'global_statement_double_rename', {'source': 'def f():\n    global counter_total, A\n    counter_total = 1\n    A = 2\n    return counter_total + counter_total + counter_total + counter_total + A\nprint(f(), counter_total, A)\n', 'opts': o(OFF, rename_globals=True)})]),
    ('6a9a8ac', ['C03'], "class body 'x = x' inside a function while module and function both bind x: with rename_globals the module binding was renamed, the class-body read raised NameError",
     [('C03', 'class_body_reads_global', {'source': "value_name = 'global value'\ndef function_name():\n    value_name = 'function value'\n    class Klass:\n        value_name = value_name\n    return Klass.value_name, value_name\nprint(function_name(), value_name)\n", 'opts': o(OFF, rename_globals=True, rename_locals=True)})]),
    ('f3ae815', ['C09'], "literal hoisting was not gated on the dynamic-name taint: locals() saw the new name",
     [('C09', 'hoist_despite_locals', {'source': "def f():\n    x = 'some long literal'\n    y = 'some long literal'\n    z = 'some long literal'\n    return locals()\nprint(sorted(f()))\n", 'opts': D, 'trigger': 'locals', 'pl': [], 'pg': []})]),
    ('3b5e756', ['C05'], "remove_debug deleted 'if x is True:' (left operand of the comparison never checked)",
     [('C05', 'remove_debug_lookalike', {'source': 'if x is True:\n    print(1)\nif y == True:\n    print(2)\nif z is not False:\n    print(3)\nprint(4)\n', 'opts': o(OFF, remove_debug=True)})]),
    ('fbe1ce5', ['C05'], "remove_debug deleted the else branch of 'if __debug__: ... else: ...' (which -O would run)",
     [('C05', 'remove_debug_else_branch', {'source': 'if __debug__:\n    x = 1\nelse:\n    x = 2\nprint(x)\n', 'opts': o(OFF, remove_debug=True)})]),
    ('2876480', ['C05'], "remove_literal_statements dropped the module docstring although the name __doc__ is used",
     [('C05', 'docstring_with_doc_name', {'source': "'''doc'''\nprint(__doc__)\n", 'opts': o(OFF, remove_literal_statements=True)})]),
    ('1e86b9b', ['C05'], "annotated assignment nested in an if/try block of a class body was treated as a variable annotation: removed by default, even from dataclass fields",
     [('C05', 'nested_class_annotation', {'source': '@dataclass\nclass K:\n    a: int = 1\n    if cond:\n        b: int = 2\n        c: str\nclass L:\n    try:\n        d: int = 3\n    finally:\n        pass\n', 'opts': D})]),
    ('52d7f61', ['C08', 'C02'], "subscript whose index is a tuple with a starred element ('x[(*a,)]') was printed 'x[*a,]', a syntax error on Python 3.9 and 3.10 (UnstableMinification)",
     [('C08', 'starred_subscript_tuple_39', {'source': 'x[(*a,)]\ndel x[(*a, b)]\n', 'opts': OFF, 'interp': '3.9'}), ('C02', 'starred_subscript_tuple_39', {'source': 'x[(*a,)]\n', 'interp': '3.10'})]),
    ('7a1b764', ['C08', 'C02'], "augmented assignment of a starred tuple ('x += (*a,)') was printed 'x+=*a,', a syntax error before Python 3.9 (UnstableMinification)",
     [('C08', 'starred_augassign_38', {'source': 'x += (*a, b)\n', 'opts': OFF, 'interp': '3.8'}), ('C02', 'starred_augassign_38', {'source': 'x += (*a,)\n', 'interp': '3.6'})]),
    ('7fe9283', ['C01', 'C06'], "remove_pass / remove_asserts / remove_debug removed every statement in front of a string statement at the start of a body, which then became the docstring (\"def f(): pass; 'a'\" -> \"def f():'a'\", __doc__ 'a' instead of None)",
     [('C01', 'string_statement_becomes_docstring', {'source': "def f():\n    pass\n    'a'\n    pass\nclass K:\n    pass\n    'b'\nprint(repr(f.__doc__), repr(K.__doc__))\n", 'opts': o(OFF, remove_pass=True)}),
      ('C06', 'string_statement_becomes_docstring', {'source': "def alpha_value(*, alpha_value: 'a'=alpha_value):\n    pass\n    'a'\n    pass\n", 'opts': D})]),
    ('57b20f4', ['C09'], "a 'global eval' statement (nothing assigns eval) made eval(...) resolve to a module binding instead of the builtin: the module was not frozen, locals were renamed and eval('local_name') failed",
     [('C09', 'global_declaration_of_trigger', {'source': "def g():\n    global eval\ndef f(some_local):\n    other_local = some_local\n    return eval('other_local')\nprint(f(1))\n", 'opts': D, 'trigger': 'eval', 'pl': [], 'pg': []})]),
    ('1c8569b', ['C12'], "folding '1e999 + 2j' printed the result as '(inf+2j)' and evaluated that text (a lookup of the name inf) to compare it with the original",
     [('C12', 'fold_to_nonfinite_complex', {'source': 'x = 0x1f + 1e999 + 2j\ny = 2j * 1e999\nz = (1e999 - 1e999) + 1j\n', 'opts': D})]),
]


def main():
    kf_path = os.path.join(ROOT, 'known_findings.json')
    kf = json.load(open(kf_path))
    kf['findings'] = [e for e in kf['findings'] if e.get('status') != 'fixed']
    for commit, props, what, cases in FIXED:
        files = []
        for check, name, case in cases:
            d = os.path.join(ROOT, 'regress', check)
            os.makedirs(d, exist_ok=True)
            p = os.path.join(d, 'fixed_%s.json' % name)
            json.dump({'property': check, 'fixed_by': commit, 'what': what, 'case': jsonable(case)}, open(p, 'w'), indent=1)
            files.append(os.path.relpath(p, ROOT))
        for prop in props:
            kf['findings'].append({'status': 'fixed', 'property': prop, 'commit': commit, 'what': what,
                                   'line': 'fixed: property=%s %s %s' % (prop, commit, what), 'regress': [f for f in files if ('/' + prop + '/') in f]})
    json.dump(kf, open(kf_path, 'w'), indent=1)
    print(len(FIXED), 'fixes recorded')


if __name__ == '__main__':
    main()
